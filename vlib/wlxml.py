"""The harness's OWN reader of the protocol XML (ElementTree only; does not import core.wl.protocol).

For every interface name: the list of highest-version candidate descriptions (ties with different content exist in
the shipped tree; the tool may legitimately pick either, so expectations are 'consistent with one candidate')."""
import os
import re
import xml.etree.ElementTree as ET

# enum tags the tool adds by hand (core/wl/protocol.py load_all) - specification, copied once from the property text
HAND_TAGS = {
    ('wl_data_offer', 'set_actions', 'dnd_actions'): 'wl_data_device_manager.dnd_action',
    ('wl_data_offer', 'set_actions', 'preferred_action'): 'wl_data_device_manager.dnd_action',
    ('wl_data_offer', 'source_actions', 'source_actions'): 'wl_data_device_manager.dnd_action',
    ('wl_data_offer', 'action', 'dnd_action'): 'wl_data_device_manager.dnd_action',
    ('wl_data_source', 'set_actions', 'dnd_actions'): 'wl_data_device_manager.dnd_action',
    ('wl_data_source', 'action', 'dnd_action'): 'wl_data_device_manager.dnd_action',
    ('wl_pointer', 'button', 'button'): 'fake_enums.button',
    ('zxdg_toplevel_v6', 'configure', 'states'): 'state',
    ('zxdg_toplevel_v6', 'resize', 'edges'): 'resize_edge',
    ('zxdg_positioner_v6', 'set_constraint_adjustment', 'constraint_adjustment'): 'constraint_adjustment',
    ('xdg_toplevel', 'configure', 'states'): 'state',
    ('xdg_toplevel', 'resize', 'edges'): 'resize_edge',
    ('xdg_positioner', 'set_constraint_adjustment', 'constraint_adjustment'): 'constraint_adjustment',
    ('zwlr_foreign_toplevel_handle_v1', 'state', 'state'): 'state',
    ('org_kde_kwin_server_decoration_manager', 'default_mode', 'mode'): 'mode',
    ('org_kde_kwin_server_decoration', 'request_mode', 'mode'): 'mode',
    ('org_kde_kwin_server_decoration', 'mode', 'mode'): 'mode',
}
FAKE_ENUMS = {'fake_enums': {'version': 1, 'messages': {}, 'enums': {
    'button': {'bitfield': False, 'entries': [('left', 0x110), ('right', 0x111), ('middle', 0x112)]}}}}


def enum_value(text):
    text = text.strip()
    m = re.fullmatch(r'(\w+)\s*<<\s*(\w+)', text)
    if m:
        return int(m.group(1), 0) << int(m.group(2), 0)
    return int(text, 0)


def read_file(path):
    """-> {iface_name: description}"""
    root = ET.parse(path).getroot()
    res = {}
    for ie in root.findall('interface'):
        msgs = {}
        for me in ie:
            if me.tag in ('request', 'event'):
                # duplicate argument names collapse to one entry in the tool (OrderedDict keyed by name);
                # the i-th argument is the property's reference, so keep the list as written
                args = [{'name': a.attrib['name'], 'type': a.attrib['type'], 'interface': a.attrib.get('interface'),
                         'enum': a.attrib.get('enum'), 'allow_null': a.attrib.get('allow-null') == 'true'}
                        for a in me.findall('arg')]
                msgs[me.attrib['name']] = {'is_event': me.tag == 'event', 'args': args,
                                           'destructor': me.attrib.get('type') == 'destructor'}
        enums = {}
        for ee in ie.findall('enum'):
            enums[ee.attrib['name']] = {
                'bitfield': ee.attrib.get('bitfield', 'false') == 'true',
                'entries': [(e.attrib['name'], enum_value(e.attrib['value'])) for e in ee.findall('entry')]}
        res[ie.attrib['name']] = {'version': int(ie.attrib['version']), 'messages': msgs, 'enums': enums,
                                  'file': path}
    return res


def discover(p):
    if os.path.isdir(p):
        out = []
        for i in sorted(os.listdir(p)):
            out += discover(os.path.join(p, i))
        return out
    return [p] if os.path.isfile(p) and p.endswith('.xml') else []


def shipped_files(repo):
    return (discover('/usr/share/wayland') + discover('/usr/share/wayland-protocols') +
            discover(os.path.join(repo, 'resources', 'protocols')))


def _content(d):
    return repr((sorted((n, m['is_event'], [(a['name'], a['type'], a['interface'], a['enum']) for a in m['args']])
                        for n, m in d['messages'].items()),
                 sorted((n, e['bitfield'], e['entries']) for n, e in d['enums'].items())))


def load_candidates(files):
    """-> {iface: [description, ...]} : all descriptions of the highest version, de-duplicated by content"""
    best = {}
    for f in files:
        for name, d in read_file(f).items():
            cur = best.get(name)
            if cur is None or d['version'] > cur[0]['version']:
                best[name] = [d]
            elif d['version'] == cur[0]['version'] and all(_content(d) != _content(x) for x in cur):
                cur.append(d)
    return best


_cache = {}


def shipped(repo):
    if repo not in _cache:
        c = load_candidates(shipped_files(repo))
        c.update({k: [v] for k, v in FAKE_ENUMS.items()})
        _cache[repo] = c
    return _cache[repo]


def arg_enum(iface, msg, arg):
    """the enum path for an argument after the hand-applied tags"""
    return HAND_TAGS.get((iface, msg, arg['name']), arg['enum'])


def find_enum(cands, iface, path):
    """-> list of candidate enum descriptions (one per candidate description of the owning interface)"""
    parts = [iface] + path.split('.')
    owner, ename = parts[-2], parts[-1]
    return [d['enums'][ename] for d in cands.get(owner, []) if ename in d['enums']]


def labels_for(enum, value):
    if enum['bitfield']:
        ls = [n for n, v in enum['entries'] if v & value]
        return ls or ['(none)']
    ls = [n for n, v in enum['entries'] if v == value]
    return ls or ['INVALID ENUM VALUE']
