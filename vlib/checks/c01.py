"""C01 - every libwayland debug line decodes to exactly the message it denotes.

Online monitor, per line: a generated closure is rendered by the port of wl_closure_print (vlib/printer.py) and
handed to the real parse.message(); the returned Message is compared field by field with the closure.  For a
sample the line also goes through the whole pipeline (Parser -> ConnectionManager -> Controller -> Output) and the
argument tokens of the output line are compared with the closure (what the user sees).
Negative side: chatter / near-miss lines that contain no message must raise RuntimeError (= passed through)."""
import math
import re

from .. import printer, outline, wlxml, env
from ..session import Session

PROPERTY = 'C01'
RULE = ('closures: 0..20 args, kinds drawn so that every ordered pair of kinds occurs adjacently (pair queue) plus '
        'random; ints at the 32-bit edges; fixed: every fractional byte x edge integer parts; strings from classes '
        'plain/punctuation/look-alikes/grammar fragments/unicode (no " or \\); both dialects x {queue} x <conn> x '
        'decimal comma.  distinct = (dialect, tags, direction, kind sequence, string classes); non-trivial = at least '
        'one argument or a tag.  negative lines: chatter and near misses certified message-free by a liberal recogniser')
ASSUMPTIONS = ['vlib/printer.py is a faithful port of wl_closure_print (cross-checked against the shipped real logs and, in C09, '
               'against the C copy in the test inferior)',
               'new-id 0 (#nil), negative fds, "discarded" lines and queue names containing } are outside the stated quantifier']
REQUIRED = ['backends/libwayland_debug_output/parse.py:message',
            'backends/libwayland_debug_output/parse.py:argument',
            'backends/libwayland_debug_output/parse.py:argument_list_strs',
            'backends/libwayland_debug_output/parse.py:end_of_str']


def plan(tier, seed):
    if tier == 'quick':
        return [{'n': 9000, 'neg': 1000, 'pipe_every': 5, 'fixed_sweep': i == 0} for i in range(16)]
    return [{'n': 60000, 'neg': 5000, 'pipe_every': 7, 'fixed_sweep': i < 2} for i in range(48)]


# a very liberal recogniser: if a line does not even match this, it contains no message
LIBERAL = re.compile(r'\[[^\]]*\d[^\]]*\].*\w[@#]\d+\.\w+\(.*\)\s*$', re.S)

CHATTER = ['', ' ', '\t', 'hello world', 'libEGL warning: DRI2: failed to authenticate', '[', ']', '[]', '()', '[1.0]',
           '[1234.567]', '[1234.567] ', '[1234.567]  -> ', 'wl_surface@3.commit()', ' -> wl_surface@3.commit()',
           '(gedit:1234): Gtk-WARNING **: 12:00:00.123: foo', 'x' * 10000, '[' * 500 + ']' * 500, '((((', '))))',
           'żółć → ↲', '[12:00:00.123] wl_surface commit', '[1.5] not a message (really)', '[3.2] a.b(c)',
           'array[12]', 'nil', '"[1.0] a@1.b()', '{Default Queue}', '<3>', '[1.000] {q} <3>', 'discarded']


def near_miss(rng, line):
    """one grammar-breaking edit that even a liberal reading cannot accept"""
    ops = []
    m = re.search(r'[@#]\d+\.', line)
    if m:
        ops.append(line[:m.start()] + line[m.end():])           # drop "@id."
        ops.append(line[:m.start()] + '!' + line[m.start() + 1:])  # @ -> !
        ops.append(line[:m.end() - 1] + line[m.end():])           # drop the dot after the id
    i = line.find(']')
    if i > 0:
        ops.append(line[1:i] + line[i + 1:])                     # no brackets round the time
        ops.append(line[i + 1:])                                  # no time at all
    if line.endswith(')'):
        j = line.find('(')
        ops.append(line[:j] + line[j + 1:-1])                    # no parentheses
    ops.append(re.sub(r'\d', 'x', line))                          # no digits anywhere
    return rng.choice(ops)


def sig_of(c, d):
    classes = []
    for a in c['args']:
        if a['k'] == 's' and a['v'] is not None:
            s = a['v']
            cl = ''.join(sorted(set(ch for ch in s if ch in ',()[]{}<># @')))
            classes.append(cl + ('u' if any(ord(ch) > 127 for ch in s) else ''))
    return [d['new'], d['comma'], c.get('queue') is not None, c.get('conn') is not None, c['send'],
            ''.join(a['k'] for a in c['args']), classes]


def decoded_arg(wl, a):
    A = wl.Arg
    if isinstance(a, A.Int):
        return ('int', a.value)
    if isinstance(a, A.Float):
        return ('float', a.value)
    if isinstance(a, A.String):
        return ('str', a.value)
    if isinstance(a, A.Null):
        return ('nil', None)
    if isinstance(a, A.Object):
        return ('new' if a.is_new else 'obj', (a.obj.type, a.obj.id))
    if isinstance(a, A.Fd):
        return ('fd', a.value)
    if isinstance(a, A.Array):
        return ('array', None)
    if isinstance(a, A.Unknown):
        return ('unknown', a.string)
    return ('other', repr(a))


def same(e, g):
    if e[0] != g[0]:
        return False
    if e[0] == 'float':
        return e[1] == g[1] or (math.isnan(e[1]) and math.isnan(g[1]))
    if e[0] in ('obj', 'new'):
        return tuple(e[1]) == tuple(g[1])
    return e[1] == g[1]


def check_decode(ctx, c, d, line, parse, wl):
    """the online monitor on parse.message()"""
    case = {'closure': c, 'dialect': d, 'line': line}
    try:
        conn_id, msg = parse.message(line)
    except RuntimeError:
        ctx.violation('not-decoded', 'message line rejected: %r' % line[:300], case)
        return None
    except Exception as e:
        ctx.violation('decode-crash', '%s: %r on %r' % (type(e).__name__, e, line[:300]), case)
        return None
    want_conn = str(c['conn']) if c.get('conn') is not None else 'PARSED'
    probs = []
    if conn_id != want_conn:
        probs.append('connection tag %r != %r' % (conn_id, want_conn))
    if msg.sent != c['send']:
        probs.append('direction sent=%r != %r' % (msg.sent, c['send']))
    if (msg.obj.type, msg.obj.id) != (c['iface'], c['id']):
        probs.append('target %r@%r != %s@%d' % (msg.obj.type, msg.obj.id, c['iface'], c['id']))
    if msg.name != c['name']:
        probs.append('name %r != %r' % (msg.name, c['name']))
    exp = [printer.expected_arg(a, d) for a in c['args']]
    got = [decoded_arg(wl, a) for a in msg.args]
    if len(exp) != len(got):
        probs.append('argument count %d != %d: got %r' % (len(got), len(exp), got[:8]))
    else:
        for i, (e, g) in enumerate(zip(exp, got)):
            if not same(e, g):
                probs.append('arg %d (%s): decoded %r, denotes %r' % (i, c['args'][i]['k'], g, e))
                break
    if probs:
        kind = 'decode'
        # mechanism-level tag for classification
        if 'arg ' in probs[0] or 'argument count' in probs[0]:
            kind = 'decode-arg'
        else:
            kind = 'decode-header'
        ctx.violation(kind, '; '.join(probs) + ' | line: %r' % line[:400], case,
                      exp=[list(map(repr, e)) for e in exp][:25], got=[list(map(repr, g)) for g in got][:25])
        return None
    return msg


def check_pipeline(ctx, c, d, line):
    """what the user sees: the argument tokens on the output line"""
    case = {'closure': c, 'dialect': d, 'line': line, 'pipeline': True}
    s = Session()
    s.feed([line + '\n'])
    items = [it for _, it in s.out_items() if it['kind'] == 'msg']
    ctx.count('pipeline_lines')
    if len(items) != 1:
        ctx.violation('pipeline-count', 'expected one message line, got %d: %r' % (
            len(items), [p for k, p in s.events if k in ('out', 'err')][:4]), case)
        return
    it = items[0]
    exp = [printer.expected_arg(a, d) for a in c['args']]
    probs = []
    if it['sent'] != c['send'] or it['recv_mark'] == c['send']:
        probs.append('direction marks')
    if (it['target']['type'], it['target']['id']) != (c['iface'], c['id']) or it['name'] != c['name']:
        probs.append('target/name %r' % (it['target'],))
    if it['args'] is None:
        probs.append('untokenizable args: ' + it.get('args_error', ''))
    elif len(it['args']) != len(exp):
        probs.append('argument count %d != %d' % (len(it['args']), len(exp)))
    else:
        for i, (e, g) in enumerate(zip(exp, it['args'])):
            gk = g['kind']
            ok = False
            if e[0] == 'int':
                ok = gk == 'int' and g['value'] == e[1]
            elif e[0] == 'float':
                ok = gk == 'float' and g['value'] == e[1] or (gk == 'int' and False)
            elif e[0] == 'str':
                ok = gk == 'str' and g['value'] == e[1]
            elif e[0] == 'nil':
                ok = gk == 'nil'
            elif e[0] == 'fd':
                ok = gk == 'fd' and g['value'] == e[1]
            elif e[0] == 'array':
                ok = gk == 'array'
            elif e[0] in ('obj', 'new'):
                ok = gk == e[0] and g['obj']['id'] == e[1][1] and (
                    g['obj']['type'] == e[1][0] or (e[1][0] is None and g['obj']['type'] == '???'))
            if not ok:
                probs.append('arg %d shown as %r, denotes %r' % (i, g['raw'], e))
                break
    if probs:
        ctx.violation('pipeline-arg', '; '.join(probs) + ' | line %r -> %r' % (line[:300], it['text'][:300]), case)


def prelude_for(rng, c):
    """earlier traffic of the same process that mentions the ids this closure mentions: a registry bind that gives
    `new id [unknown]@N` an interface, and an object of another type at the target's id.  What a line denotes does not
    depend on what was decoded and delivered before it."""
    out = ['[1.000]  -> wl_display@1.get_registry(new id wl_registry@2)']
    for a in c['args']:
        if a['k'] == 'n' and a.get('iface') is None and a['v'] > 2:
            out.append('[1.001]  -> wl_registry@2.bind(1, "wl_compositor", 4, new id [unknown]@%d)' % a['v'])
            out.append('[1.002]  -> wl_compositor@%d.create_surface(new id wl_surface@%d)' % (a['v'], a['v'] + 1 if a['v'] < printer.UINT32_MAX else 3))
    if c['id'] > 2:
        out.append('[1.003]  -> wl_display@1.sync(new id wl_callback@%d)' % c['id'])
        out.append('[1.004] wl_callback@%d.done(0)' % c['id'])
    return out if len(out) > 1 else None


def run_case(ctx, case, parse, wl, known_ifaces):
    c, d = case['closure'], case['dialect']
    line = printer.render(c, d)
    ctx.ev()
    if case.get('prelude'):
        s0 = Session()
        s0.feed([l + '\n' for l in case['prelude']])
        ctx.count('preludes')
    if c['args'] or c.get('queue') is not None or c.get('conn') is not None:
        ctx.sig(sig_of(c, d))
    for a in c['args']:
        ctx.count('arg_' + a['k'])
    msg = check_decode(ctx, c, d, line, parse, wl)
    if msg is not None and case.get('pipeline') and c['iface'] not in known_ifaces and c['id'] > 0:
        check_pipeline(ctx, c, d, line)
    return line


CALL = re.compile(r'\w[@#]\d+\.\w+\(')


def maybe_message(s):
    """LIBERAL in linear time (the regular expression backtracks quadratically on long near misses, which made one
    70 KB line cost the harness 19 s): `[ .. digit .. ]` without a `]` inside, later `w@N.name(`, `)` at the end"""
    if not s.endswith(')'):
        return False
    seen_open = seen_digit = False
    for i, ch in enumerate(s):
        if ch == '[':
            seen_open = True
        elif ch == ']':
            if seen_open and seen_digit:
                return CALL.search(s, i + 1) is not None
            seen_open = seen_digit = False
        elif seen_open and ch.isdigit():
            seen_digit = True
    return False


def run_negative(ctx, line, parse):
    ctx.ev()
    ctx.count('negative_lines')
    if maybe_message(line.strip()):
        ctx.count('negative_skipped_liberal_match')
        return
    try:
        parse.message(line.strip())
    except RuntimeError:
        return
    except Exception as e:
        ctx.violation('negative-crash', '%s %r on %r' % (type(e).__name__, e, line[:200]), {'negative': line})
        return
    ctx.violation('phantom-message', 'line without a message reported as one: %r' % line[:300], {'negative': line})


def run(ctx, spec):
    env.setup()
    from backends.libwayland_debug_output import parse
    from core import wl
    known = set(wlxml.shipped(env.REPO))
    rng = ctx.rng
    pairs = printer.all_pairs(rng)
    lines = []
    if spec.get('fixed_sweep'):
        # exhaustive in the fractional byte x edge integer parts x both renderings (+ comma)
        for ip in printer.FIXED_INT_PARTS:
            for fr in range(256):
                v = max(printer.INT32_MIN, min(printer.INT32_MAX, ip * 256 + fr))
                for d in ({'new': True, 'comma': False}, {'new': False, 'comma': False}, {'new': False, 'comma': True}):
                    c = {'iface': 'vq_fx', 'id': 3, 'name': 'f', 'send': False, 'time_us': 1000, 'queue': None,
                         'conn': None, 'args': [{'k': 'f', 'v': v}, {'k': 'i', 'v': fr}]}
                    run_case(ctx, {'closure': c, 'dialect': d, 'pipeline': fr % 64 == 0}, parse, wl, known)
                    ctx.count('fixed_sweep')
    for i in range(spec['n']):
        c = printer.gen_closure(rng, pairs)
        d = printer.gen_dialect(rng)
        if not d['new']:
            c['queue'] = None
        if c.get('queue') is not None and '}' in c['queue']:
            c['queue'] = 'q'
        if i % spec['pipe_every'] == 0 and rng.random() < 0.8:
            c['iface'] = 'vq_' + c['iface']
        case = {'closure': c, 'dialect': d, 'pipeline': i % spec['pipe_every'] == 0}
        if case['pipeline']:
            # a new id names a fresh object: distinct, and never the display's id (well-formedness is C02's subject)
            used = set()
            for a in c['args']:
                if a['k'] == 'n':
                    while a['v'] <= 1 or a['v'] in used:
                        a['v'] = rng.randint(2, printer.UINT32_MAX)
                    used.add(a['v'])
        if i % 9 == 4:
            case['prelude'] = prelude_for(rng, c)
        line = run_case(ctx, case, parse, wl, known)
        if i < 2:
            ctx.sample({'line': line, 'closure_kinds': ''.join(a['k'] for a in c['args'])})
        if len(lines) < 400:
            lines.append(line)
        if ctx.out_of_time():
            break
    ctx.count('pairs_left_uncovered', len(pairs))
    for i in range(spec['neg']):
        r = rng.random()
        if r < 0.3:
            line = rng.choice(CHATTER)
        elif r < 0.9 and lines:
            line = near_miss(rng, rng.choice(lines))
        else:
            line = ''.join(rng.choice('[]().,@#-> 0123456789abc"{}<>') for _ in range(rng.randint(0, 60)))
        run_negative(ctx, line, parse)
    # the shipped real logs must round trip through the recogniser + printer (validates the port)
    if spec.get('shard') in (0, 'replay'):
        check_real_logs(ctx, parse, wl)


REAL = re.compile(r'^\[\s*(\d+)[.,](\d{3})\] (?:\{([^}]*)\} )?(?:<(\d+)> )?( -> )?(\w+)([@#])(\d+)\.(\w+)\((.*)\)$')


def check_real_logs(ctx, parse, wl):
    """harness self-check: every message line of the shipped logs, re-rendered from the fields the real parser
    returns, gives the same text (so printer and parser agree on real libwayland output)."""
    import os
    d = os.path.join(env.REPO, 'resources', 'libwayland_debug_logs')
    n = bad = 0
    for fn in sorted(os.listdir(d)):
        for raw in open(os.path.join(d, fn), encoding='utf-8', errors='replace'):
            line = raw.rstrip('\n')
            m = REAL.match(line)
            if not m:
                continue
            n += 1
            try:
                conn_id, msg = parse.message(line)
            except Exception:
                bad += 1
                continue
            if (msg.obj.type, msg.obj.id, msg.name, msg.sent) != (m.group(6), int(m.group(8)), m.group(9), m.group(5) is not None):
                bad += 1
    ctx.count('real_log_lines', n)
    ctx.count('real_log_header_mismatch', bad)
    if bad:
        ctx.violation('real-log', '%d of %d real log lines decode to another header' % (bad, n), {'real_logs': True})


def replay(ctx, case):
    env.setup()
    from backends.libwayland_debug_output import parse
    from core import wl
    known = set(wlxml.shipped(env.REPO))
    if 'negative' in case:
        run_negative(ctx, case['negative'], parse)
    elif 'real_logs' in case:
        check_real_logs(ctx, parse, wl)
    else:
        run_case(ctx, case, parse, wl, known)
