"""C12 - filter/breakpoint commands accumulate alternatives and exclusions.
History + model: sequences of 1..12 `filter` / `breakpoint` commands (alternatives only, exclusions only, both, `*`, `!`,
`* ! x`, malformed; last step in 3 of 10: an alternative nothing can match) go through Controller.process_command; after EVERY step the controller's two matchers are evaluated
over a universe of real messages (hooked state) and must lie inside the [must, may] interval of the accumulation model
(vlib/joinref.py); a malformed text must print an error line and change nothing.  At the end of a sequence the boundary
is observed too: the universe is streamed through a session primed with the same commands and the lines shown /
`Stopped at` notices must agree."""
from .. import wlxml, streams, env, mgen, mref, joinref, outline
from ..session import Session
from ..runner import h64
from . import c05

PROPERTY = 'C12'
RULE = ('command sequences of length 1..12 per matcher kind, steps drawn from {alternatives, exclusions, both, *, !, * ! x, malformed}, 30% of the sequences ending with a command whose only alternative is structurally unsatisfiable (x(!), [!].y, ...), '
        'spelled filter/f/wlf/wl filter and breakpoint/b/wlb; matchers are depth-1 expressions over the universe vocabulary; '
        'universe = 3-connection stream of real messages. distinct = hash of the command sequence; non-trivial = sequence with '
        '>= 2 well-formed steps where the selection is neither empty nor everything at some step')
ASSUMPTIONS = ['the accumulation model of DESIGN.md 3.4; alternatives given before a `*` may or may not survive a later specific alternative',
               'matcher semantics as in C05 (only definite values compared)']
REQUIRED = ['core/matcher.py:join', 'frontends/tui/controller.py:Controller.parse_and_join', 'frontends/tui/controller.py:Controller.filter_command',
            'frontends/tui/controller.py:Controller.break_point_command']
BAD = ['[', ']', 'a.b.c', '(', 'a@b@c', '"', 'wl_surface@3', 'a!b!c', '(()', 'x y', 'a:b:c', '.x(', 'wl_x.y)z']


def plan(tier, seed):
    if tier == 'quick':
        return [{'seqs': 90, 'n_each': [40, 70]} for _ in range(16)]
    return [{'seqs': 900, 'n_each': [60, 140]} for _ in range(64)]


def gen_step(rng, g, prev=None, qualify=None):
    """-> (text, ast or None when malformed)"""
    text, mt = gen_step_(rng, g, prev)
    if qualify is not None and mt is not None and text not in ('*', '!'):
        # a session about one connection: every pattern carries its name
        for p in mt['pos'] + mt['neg']:
            if not joinref.is_any(p):
                p['conn'] = {'w': qualify}
        text = mgen.Render().matcher(mt)
    return text, mt


UNSAT = ['wl_surface.attach(!)', '[!].sync', '[wl_surface ! *].commit', 'wl_surface.commit([!])', 'x.[!]', '[[!]].z', 'wl_callback.done(!)', '[! *].done']


def clean(allp):
    """no constant parts, no connection-prefix ambiguity"""
    if not all(p['conn'] is not None for p in allp if not joinref.is_any(p)):
        for p in allp:
            p['conn'] = None
    for p in allp:
        if not joinref.is_any(p) and mref.has_const_true_item(p['args']):
            p['args'] = None
            if p['obj'] is None and p['name'] is None:
                p['name'] = {'w': 'sync'}


def gen_unsat(rng, g):
    """a well-formed command whose only alternative can never match anything (the tool folds it away): it still is a
    specific alternative, so a pending `*` stops applying; optional ordinary exclusions"""
    neg = [g.pattern() for _ in range(rng.choice([0, 0, 1, 2]))]
    clean(neg)
    text = rng.choice(UNSAT)
    if neg:
        text += ' ! ' + ', '.join(mgen.Render().pattern(p) for p in neg)
    return text, {'pos': [dict(joinref.NEVER)], 'neg': neg}


def gen_step_(rng, g, prev=None):
    r = rng.random()
    if prev and rng.random() < 0.15:
        # a pattern that prints like an earlier one but means something else (quoted string vs bare word / number)
        cands = [p for m in prev for p in m['pos'] + m['neg'] if not joinref.is_any(p)]
        rng.shuffle(cands)
        for p in cands:
            t = g.twin(p)
            if t is not None:
                mt = {'pos': [t], 'neg': []} if rng.random() < 0.7 else {'pos': [], 'neg': [t]}
                return mgen.Render().matcher(mt), mt
    if r < 0.1:
        if rng.random() < 0.08:
            k = rng.choice([600, 900, 1500, 3000])      # nested deeper than the interpreter's stack: cannot be parsed, must be reported like any other
            return rng.choice(['[' * k + 'x' + ']' * k, 'x(' + '[' * k + 'y' + ']' * k + ')', '[' * k + '! x' + ']' * k]), None
        return rng.choice(BAD), None
    if r < 0.17:
        return '*', {'pos': [dict(mgen.ANY)], 'neg': []}
    if r < 0.24:
        return '!', {'pos': [dict(mgen.ANY)], 'neg': [dict(mgen.ANY)]}
    npos = rng.choice([1, 1, 2])
    nneg = rng.choice([0, 0, 1, 2])
    if r < 0.4:
        npos = 0
        nneg = max(1, nneg)
    mt = {'pos': [g.pattern() for _ in range(npos)], 'neg': [g.pattern() for _ in range(nneg)]}
    if 0.4 <= r < 0.47:
        mt['pos'] = [dict(mgen.ANY)] + (mt['pos'] if rng.random() < 0.5 else [])
    clean(mt['pos'] + mt['neg'])
    style = rng.random()
    text = mgen.Render(rng, ws=0.3 if style < 0.3 else 0.0, br=0.2 if 0.3 <= style < 0.5 else 0.0).matcher(mt)
    return text, mt


def tool_sel(m, msgs):
    return [bool(m.matches(x)) for x in msgs]


def compare(ctx, state, sel, projs, what, case):
    n_some = 0
    case = dict(case, interval=[list(joinref.selected(state, p)) for p in projs], what=what)
    for i, (p, g) in enumerate(zip(projs, sel)):
        lo, hi = joinref.selected(state, p)
        if lo is True and not g:
            ctx.violation('accumulation-missing', '%s: message %d must be selected by %s but is not' % (what, i, joinref.describe(state)), dict(case, message_index=i))
            return None
        if hi is False and g:
            ctx.violation('accumulation-extra', '%s: message %d is selected although %s excludes it' % (what, i, joinref.describe(state)), dict(case, message_index=i))
            return None
        if g:
            n_some += 1
    return n_some


def start_options(rng, g):
    """-f / -b given on the command line, through the real option parser -> (argv options, matchers, model states)"""
    from frontends.tui.arguments import parse_args
    opts = []
    states = {'filter': ('const', True), 'breakpoint': ('const', False)}
    for flag, kind in (('-f', 'filter'), ('-b', 'breakpoint')):
        if rng.random() < 0.5:
            text, ast = gen_step(rng, g)
            if ast is None:
                continue
            opts += [flag, text]
            states[kind] = joinref.from_matcher(ast)
    if not opts:
        return [], None, states
    try:
        args = parse_args(['main.py'] + opts + ['-l', 'x.log'])
    except RuntimeError:
        return [], None, {'filter': ('const', True), 'breakpoint': ('const', False)}
    return opts, (args.filter_matcher, args.stop_matcher), states


def start_matchers(opts):
    if not opts:
        return None
    from frontends.tui.arguments import parse_args
    args = parse_args(['main.py'] + list(opts) + ['-l', 'x.log'])
    return (args.filter_matcher, args.stop_matcher)


def run_sequence(ctx, rng, g, lines, projs):
    opts, matchers, states = start_options(rng, g) if rng.random() < 0.3 else ([], None, {'filter': ('const', True), 'breakpoint': ('const', False)})
    qualify = rng.choice(sorted(set(p['conn'] for p in projs))) if rng.random() < 0.2 else None
    s = Session(matchers=matchers)
    s.feed([l + '\n' for l in lines])
    msgs = list(s.ctl.all_messages)
    cmds = []
    if opts:
        ctx.count('sequences_with_start_options')
    interesting = 0
    wellformed = 0
    prev = {'filter': [], 'breakpoint': []}
    nsteps = rng.randint(1, 12)
    unsat_last = rng.random() < 0.3
    for step in range(nsteps):
        kind = rng.choice(['filter', 'filter', 'breakpoint'])
        if unsat_last and step == nsteps - 1:
            # last step: an alternative nothing can match (the model does not follow the tool's folding to `!` any further)
            pending = [k for k in ('filter', 'breakpoint') if states[k][0] == 'acc' and states[k][3]]
            if pending and rng.random() < 0.8:
                kind = rng.choice(pending)
            text, ast = gen_unsat(rng, g)
            ctx.count('unsatisfiable_steps')
            ctx.setadd('unsatisfiable_after', states[kind][0] + (':star' if states[kind][0] == 'acc' and states[kind][3] else ''))
        else:
            text, ast = gen_step(rng, g, prev[kind], qualify)
            if ast is not None:
                prev[kind].append(ast)
        spelled = rng.choice({'filter': ['filter', 'f', 'wlf', 'wl filter', 'fil'], 'breakpoint': ['breakpoint', 'b', 'wlb', 'w b', 'break']}[kind])
        cmd = spelled + ' ' + text
        cmds.append(cmd)
        case = {'lines': lines, 'commands': list(cmds), 'options': opts}
        before = {'filter': tool_sel(s.ctl.display_matcher, msgs), 'breakpoint': tool_sel(s.ctl.stop_matcher, msgs)}
        n0 = len(s.events)
        try:
            s.command(cmd)
        except Exception as e:
            ctx.violation('command-exception', '%r raised %s: %r' % (cmd, type(e).__name__, e), case)
            return cmds
        errs = [p for k, p in s.events[n0:] if k == 'err']
        outs = [p for k, p in s.events[n0:] if k == 'out']
        after = {'filter': tool_sel(s.ctl.display_matcher, msgs), 'breakpoint': tool_sel(s.ctl.stop_matcher, msgs)}
        other = 'breakpoint' if kind == 'filter' else 'filter'
        ctx.ev()
        if after[other] != before[other]:
            ctx.violation('cross-talk', '%r changed the %s selection' % (cmd, other), case)
            return cmds
        if ast is None:
            ctx.count('malformed_steps')
            if not any('Failed to parse' in outline.strip_sgr(e) for e in errs):
                # the tool may legitimately accept a text I took for malformed: then it must not be silently ignored either
                ctx.count('malformed_accepted')
                return cmds       # the model cannot follow: stop this sequence here (not a verdict)
            if after[kind] != before[kind]:
                ctx.violation('malformed-changes-state', 'malformed %r was reported but changed the %s selection' % (cmd, kind), case)
                return cmds
            continue
        if errs:
            ctx.violation('wellformed-rejected', '%r -> %r' % (cmd, [outline.strip_sgr(e) for e in errs][:2]), case)
            return cmds
        wellformed += 1
        states[kind] = joinref.join(states[kind], ast)
        ctx.setadd('model_transitions', '%s:%s' % (states[kind][0], 'star' if states[kind][0] == 'acc' and states[kind][3] else ''))
        n = compare(ctx, states[kind], after[kind], projs, 'after %r' % cmd, case)
        if n is None:
            return cmds
        if 0 < n < len(msgs):
            interesting += 1
        want_prefix = 'Only showing messages that match ' if kind == 'filter' else 'Breaking on messages that match: '
        if not any(outline.strip_sgr(o).startswith(want_prefix) for o in outs):
            ctx.violation('no-confirmation', '%r printed %r' % (cmd, outs[:2]), case)
            return cmds
    if wellformed >= 2 and interesting:
        ctx.sig(h64(cmds))
    # ---- boundary: prime a fresh session with the same commands, then stream the universe ---------------
    s2 = Session(matchers=start_matchers(opts))
    for c in cmds:
        s2.command(c)
    n0 = len(s2.events)
    s2.feed([l + '\n' for l in lines])
    per = s2.per_read()
    shown = []
    stopped = []
    for i in range(len(lines)):
        items = [outline.parse_line(p) for k, p in per.get(i, []) if k == 'out']
        shown.append(any(it['kind'] == 'msg' for it in items))
        stopped.append(any(it['kind'] == 'stopped' for it in items))
    case = {'lines': lines, 'commands': list(cmds), 'boundary': True, 'options': opts}
    compare(ctx, states['filter'], shown, projs, 'live view after the whole sequence', case)
    compare(ctx, states['breakpoint'], stopped, projs, '`Stopped at` notices after the whole sequence', case)
    ctx.count('boundary_runs')
    return cmds


def run(ctx, spec):
    env.setup()
    cands = wlxml.shipped(env.REPO)
    rng = ctx.rng
    u = c05.build_universe(ctx, rng, cands, spec['n_each'], deep=False)
    if u is None:
        return
    st, s, projs, msgs = u
    lines = [e['line'] for e in st['entries']]
    g = mgen.Gen(rng, mgen.vocab_of(projs), depth=1)
    for n in range(spec['seqs']):
        cmds = run_sequence(ctx, rng, g, lines, projs)
        ctx.count('sequences')
        ctx.count('steps', len(cmds))
        if len(ctx.samples) < 2 and len(cmds) >= 3:
            ctx.sample({'commands': cmds})
        if ctx.out_of_time():
            break


def replay(ctx, case):
    env.setup()
    s = Session(matchers=start_matchers(case.get('options')))
    if case.get('boundary'):
        for c in case['commands']:
            s.command(c)
        s.feed([l + '\n' for l in case['lines']])
    else:
        s.feed([l + '\n' for l in case['lines']])
        for c in case['commands']:
            s.command(c)
    msgs = list(s.ctl.all_messages)
    for k, p in s.events:
        if k in ('cmd', 'err') or (k == 'out' and (p.startswith('Only') or p.startswith('Breaking'))):
            print(k, outline.strip_sgr(p))
    ctx.ev()
    if case.get('interval') and not case.get('boundary') and len(case['interval']) == len(msgs):
        which = 'breakpoint' if case['commands'][-1].lstrip('w l').startswith('b') else 'filter'
        m = s.ctl.stop_matcher if which == 'breakpoint' else s.ctl.display_matcher
        for i, ((lo, hi), x) in enumerate(zip(case['interval'], msgs)):
            g = bool(m.matches(x))
            if (lo is True and not g) or (hi is False and g):
                ctx.violation('accumulation', 'after the stored commands the %s matcher %s message %d, the stored model interval is [%r, %r]' % (
                    which, 'selects' if g else 'does not select', i, lo, hi), case)
                break
    if 'message_index' in case:
        i = case['message_index']
        print('message', i, case['lines'][i], 'filter:', s.ctl.display_matcher.matches(msgs[i]), 'breakpoint:', s.ctl.stop_matcher.matches(msgs[i]))
