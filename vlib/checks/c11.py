"""C11 - `list` returns exactly the recorded messages that match, with honest counts.
Online monitor per query, on sessions like C06's (filters, selections, commands mid-stream): the block printed between
`Messages that match ...:` and the count line must be exactly [m in recorded(selection) | matches(m)] oldest first
(reference semantics), with `~ N` (N >= 1) its last N; matched + didn't + not checked = |recorded(selection)|; state
(filter, breakpoint, selection, recorded tuples) is snapshotted around every query and must not change; a repeated
query gives the same answer."""
import zlib
from .. import wlxml, streams, env, mgen, mref, joinref, outline, history
from ..session import Session
from ..runner import h64
from . import c05, c12

PROPERTY = 'C11'
RULE = ('sessions of 2..4 connections with optional -f and filter/breakpoint/connection commands before the queries; queries mid-stream and '
        'after EOF: list, list M, list M ~ N, list ~ N, list X: M with N in {0, 1, k-1, k, k+1, 10^6} around the true match count k; '
        'malformed M and N; a third of the queries typed at the real prompt (TerminalUI), object ids spelled @N and #N. distinct = hash of (session, query); non-trivial = query that lists some but not all recorded messages')
ASSUMPTIONS = ['matcher semantics as in C05 / accumulation as in C12; queries whose reference value is unspecified for some recorded message are skipped']
REQUIRED = ['frontends/tui/controller.py:Controller.list_command', 'frontends/tui/controller.py:Controller._get_matching',
            'frontends/tui/controller.py:Controller.show_messages']


def plan(tier, seed):
    if tier == 'quick':
        return [{'n': 16, 'n_each': [25, 60], 'queries': 14} for _ in range(16)]
    return [{'n': 150, 'n_each': [30, 120], 'queries': 30} for _ in range(64)]


def snapshot(s):
    c = s.ctl
    msgs = list(c.all_messages)
    return {'filter': str(c.display_matcher), 'break': str(c.stop_matcher),
            'sel': c.current_connection.name() if c.current_connection is not None else None,
            'filter_sel': [bool(c.display_matcher.matches(m)) for m in msgs], 'break_sel': [bool(c.stop_matcher.matches(m)) for m in msgs],
            'recorded': [(x.name(), tuple(id(m) for m in x.messages())) for x in s.cm.connections()], 'all': tuple(id(m) for m in msgs)}


def run_query(s, cmd):
    n0 = len(s.events)
    if zlib.crc32(cmd.encode('utf-8', 'replace')) % 3 == 0 and '\n' not in cmd and cmd.split()[:1] not in (['q'], ['quit'], ['r'], ['resume']):
        s.prompt(cmd)       # typed at the prompt of load-from-file / run mode (a function of the text, so that a replay does the same)
    else:
        s.command(cmd)
    outs = [p for k, p in s.events[n0:] if k == 'out']
    errs = [p for k, p in s.events[n0:] if k == 'err']
    items = [outline.parse_line(o) for o in outs]
    return outs, errs, items


class Monitor:
    def __init__(self, ctx, st, projs, case_base):
        self.ctx, self.st, self.projs, self.case_base = ctx, st, projs, case_base
        self.state = ('const', True)
        self.selection = None
        self.arrived = 0       # number of lines read so far

    def expected(self, ast_or_state, is_state, cap):
        """indices of the messages that must be listed, or None when unspecified"""
        scope = [i for i in range(self.arrived) if self.selection is None or self.st['names'][self.st['entries'][i]['ci']] == self.selection]
        hit = []
        for i in scope:
            if is_state:
                lo, hi = joinref.selected(ast_or_state, self.projs[i])
                if lo != hi or lo is None:
                    return None, scope
                v = lo
            else:
                v = mref.matcher_match(ast_or_state, self.projs[i])
                if v is None:
                    return None, scope
            if v:
                hit.append(i)
        k = len(hit)
        if cap:
            hit = hit[-cap:]
        return hit, scope, k

    def query(self, s, cmd, ast, cap, malformed, repeat=True):
        ctx = self.ctx
        case = dict(self.case_base, query=cmd, arrived=self.arrived)
        before = snapshot(s)
        outs, errs, items = run_query(s, cmd)
        after = snapshot(s)
        ctx.ev()
        ctx.count('queries')
        if before != after:
            diff = [k for k in before if before[k] != after[k]]
            ctx.violation('list-changes-state', '%r changed %r' % (cmd, diff), case)
            return
        if malformed:
            if not errs or any(i['kind'] == 'msg' for i in items) and malformed == 'cap':
                ctx.violation('malformed-query', '%r: no error line (%r)' % (cmd, outs[:2]), case)
            return
        if errs:
            ctx.violation('query-rejected', '%r -> %r' % (cmd, errs[:1]), case)
            return
        r = self.expected(ast if ast is not None else self.state, ast is None, cap)
        if r[0] is None:
            ctx.count('queries_unspecified')
            return
        hit, scope, k = r
        exp_texts = []
        for i in hit:
            e = self.st['entries'][i]
            exp_texts.append([history.expected_text(e['rec'], e['side'], self.st['names'][e['ci']]), streams.exp_floats(e['rec'], self.st['dialect'])])
        case = dict(case, expected_listing=exp_texts, scope_size=len(scope))
        listed = [i for i in items if i['kind'] == 'msg']
        if len(listed) != len(hit):
            ctx.violation('list-selection', '%r listed %d messages, expected %d (of %d matching, %d in scope): first listed %r' % (
                cmd, len(listed), len(hit), k, len(scope), [l['text'][:100] for l in listed[:2]]), case)
            return
        for l, i in zip(listed, hit):
            e = self.st['entries'][i]
            prob, _, _ = streams.compare_line(l['text'], history.expected_text(e['rec'], e['side'], self.st['names'][e['ci']]), streams.exp_floats(e['rec'], self.st['dialect']))
            if prob:
                ctx.violation('list-selection', '%r listed %r where line %d %r is expected' % (cmd, l['text'][:160], i, e['line'][:120]), case)
                return
        tail = [i for i in items if i['kind'] in ('count', 'none_of', 'no_messages')]
        if hit:
            if len(tail) != 1 or tail[0]['kind'] != 'count':
                ctx.violation('list-counts', '%r: no count line (%r)' % (cmd, outs[-2:]), case)
                return
            t = tail[0]
            if t['matched'] != len(hit) or t['matched'] + t['didnt'] + t['not_checked'] != len(scope):
                ctx.violation('list-counts', '%r: %r but %d listed and %d recorded in scope' % (cmd, t['text'], len(hit), len(scope)), case)
                return
            if not cap and t['not_checked'] != 0:
                ctx.violation('list-counts', '%r without cap reports %d not checked' % (cmd, t['not_checked']), case)
                return
        else:
            if len(tail) != 1 or (tail[0]['kind'] == 'none_of' and tail[0]['n'] != len(scope)) or tail[0]['kind'] == 'count':
                if not (tail and tail[0]['kind'] == 'no_messages' and not s.cm.connections()):
                    ctx.violation('list-counts', '%r matched nothing: tail %r, %d recorded in scope' % (cmd, [t['text'] for t in tail], len(scope)), case)
                    return
        if 0 < len(hit) < len(scope):
            ctx.sig([h64(self.case_base), cmd])
            ctx.count('queries_partial')
        if repeat:
            outs2, errs2, _ = run_query(s, cmd)
            import re
            if outs2 != outs or errs2 != errs:
                ctx.violation('list-not-repeatable', '%r gives another answer the second time' % cmd, case)
        return k


def gen_queries(rng, g, mon, names, n):
    qs = []
    for _ in range(n):
        r = rng.random()
        if r < 0.08:
            qs.append(('list ' + rng.choice(c12.BAD), None, None, 'matcher'))
            continue
        if r < 0.14:
            qs.append(('list ~ ' + rng.choice(['x', '', '1.5', 'two']), None, None, 'cap'))
            continue
        use_filter = rng.random() < 0.25
        if use_filter:
            text, ast = '', None
        else:
            text, ast = c12.gen_step(rng, g)
            if ast is None:
                continue
            if rng.random() < 0.2:
                nm = rng.choice(names)
                for p in ast['pos'] + ast['neg']:
                    if not joinref.is_any(p):
                        p['conn'] = {'w': nm}
                if all(p['conn'] is not None or joinref.is_any(p) for p in ast['pos'] + ast['neg']) and not any(joinref.is_any(p) for p in ast['pos'] + ast['neg']):
                    text = mgen.Render().matcher(ast)
                else:
                    for p in ast['pos'] + ast['neg']:
                        p['conn'] = None
                    text = mgen.Render().matcher(ast)
            if '~' in text:
                continue
        qs.append((('list ' + text).strip(), ast, 'capsel', None))
        if ast is not None and rng.random() < 0.3:
            # straight afterwards a query that PRINTS the same but means something else (quoted string vs word vs number)
            pats = [p for p in ast['pos'] + ast['neg'] if not joinref.is_any(p)]
            tw = [(p, g.twin(p)) for p in pats]
            tw = [(p, t) for p, t in tw if t is not None]
            if tw:
                p0, t0 = rng.choice(tw)
                ast2 = {'pos': [t0 if x is p0 else x for x in ast['pos']], 'neg': [t0 if x is p0 else x for x in ast['neg']]}
                qs.append((('list ' + mgen.Render().matcher(ast2)).strip(), ast2, 'capsel', None))
    return qs


def run_one(ctx, rng, cands, spec):
    k = rng.randint(2, 4)
    back = rng.choice([0.0, 0.0, 0.1])
    st = streams.build(rng, cands, k=k, n_each=tuple(spec['n_each']), tagged=True, opts={'backsteps': back},
                       t0=rng.randint(10**7, 10**9) if back else None)
    projs = [c05.project(e, st['names'][e['ci']], st['dialect']) for e in st['entries']]
    lines = [e['line'] for e in st['entries']]
    g = mgen.Gen(rng, mgen.vocab_of(projs), depth=1)
    names = list(st['names'].values())
    # priming commands (state that listing must not disturb and that `list` without matcher uses)
    prim = []
    for _ in range(rng.choice([0, 1, 2, 3])):
        f_text, f_ast = c12.gen_step(rng, g)
        if f_ast is not None:
            prim.append(('filter ' + f_text, 'filter', f_ast))
    for _ in range(rng.choice([0, 1, 2])):
        b_text, b_ast = c12.gen_step(rng, g)
        if b_ast is not None:
            prim.append(('breakpoint ' + b_text, 'break', b_ast))
    rng.shuffle(prim)
    case_base = {'lines': lines, 'prime': [p[0] for p in prim]}
    s = Session()
    mon = Monitor(ctx, st, projs, case_base)
    for cmd, kind, ast in prim:
        s.command(cmd)
        if kind == 'filter':
            mon.state = joinref.join(mon.state, ast)
    qs = gen_queries(rng, g, mon, names, spec['queries'])
    # the very same texts that were used to extend the filter / breakpoint (a cache keyed by text must not leak the joined matcher)
    for cmd, kind, ast in prim:
        if '~' not in cmd:
            qs.insert(rng.randrange(len(qs) + 1), ('list ' + cmd.split(' ', 1)[1], ast, 'capsel', None))
    cut = rng.randint(1, len(lines))
    positions = sorted(set([cut, len(lines)]))
    fed = 0
    script = []
    for pos in positions:
        # feed lines fed..pos (no cleanup until the end), then query
        from backends.libwayland_debug_output import parse
        if fed == 0:
            parser = parse.Parser(s.output, s.cm)
        for l in lines[fed:pos]:
            s.events.append(('read', fed))
            try:
                cid, m = parse.message(l)
                parser.handle_message(cid, m)
            except RuntimeError as e:
                s.output.unprocessed(str(e))
            fed += 1
        mon.arrived = fed
        # selection
        if rng.random() < 0.5:
            opened = list(dict.fromkeys(st['names'][e['ci']] for e in st['entries'][:fed]))
            arg = rng.choice(opened + ['all'])
            s.command('connection ' + arg)
            mon.selection = None if arg == 'all' else arg
            script.append('connection ' + arg)
        for cmd, ast, mode, malformed in (qs if pos == len(lines) else qs[:4]):
            if malformed:
                mon.query(s, cmd, None, None, malformed, repeat=False)
                script.append(cmd)
                continue
            # first without cap to learn k, then caps around k
            mon.case_base = dict(case_base, script=list(script), fed=fed)
            kk = mon.query(s, cmd, ast, None, None)
            script.append(cmd)
            if kk is None:
                continue
            caps = sorted(set([0, 1, max(1, kk - 1), max(1, kk), kk + 1, 10**6]))[:rng.choice([2, 4, 6])]
            if kk > 258:
                # long histories: COUNT values in the hundreds, below the number of matches
                caps = sorted(set(caps + [255, 256, 257, 258, rng.randint(259, kk), kk - 1]))
                ctx.count('queries_with_more_than_258_matches')
            for N in caps:
                c2 = cmd + (rng.choice([' ~ %d', ' ~%d', '~ %d']) if cmd != 'list' else rng.choice([' ~ %d', ' ~%d'])) % N
                mon.query(s, c2, ast, N, None, repeat=False)
                script.append(c2)
    parser.cleanup()
    ctx.count('sessions')
    if len(ctx.samples) < 1:
        ctx.sample({'prime': case_base['prime'], 'queries_head': script[:8], 'lines_head': lines[:2]})


def run_late(ctx, rng, cands, spec):
    """a log attached late: the lines that created some objects are missing, so messages on them stay unresolved.  The
    listing must still be exactly the recorded messages of the scope that match - here 'match' is taken from the tool's own
    parsed matcher evaluated by the harness over Connection.messages() (isolates scope / order / cap / count logic)."""
    k = rng.randint(2, 3)
    st = streams.build(rng, cands, k=k, n_each=tuple(spec['n_each']), tagged=True)
    victim = rng.randrange(k)
    cut = rng.randint(1, max(1, sum(1 for e in st['entries'] if e['ci'] == victim) // 2))
    seen = 0
    entries = []
    for e in st['entries']:
        if e['ci'] == victim and seen < cut:
            seen += 1
            continue
        entries.append(e)
    lines = [e['line'] for e in entries]
    ref = Session()
    ref.feed([l + '\n' for l in lines])
    per = ref.per_read()
    ref_text = {}
    for i in range(len(lines)):
        ms = [p for kk, p in per.get(i, []) if kk == 'out' and outline.parse_line(p)['kind'] == 'msg']
        if len(ms) != 1:
            return          # (an ill-formed line that is not shown as one message: outside this routine)
        ref_text[i] = ms[0].strip().split(' ', 1)[1]
    s = Session()
    s.feed([l + '\n' for l in lines])
    from core import matcher as matcher_mod
    conns = {c.name(): c for c in s.cm.connections()}
    # arrival order per line: connection names by first appearance of the tags
    names = {}
    for e in entries:
        if e['ci'] not in names:
            names[e['ci']] = streams.conn_name(len(names))
    line_conn = [names[e['ci']] for e in entries]
    pos = {n: 0 for n in conns}
    arrival = []
    for i, n in enumerate(line_conn):
        msgs = conns[n].messages()
        if pos[n] >= len(msgs):
            ctx.violation('not-recorded', 'connection %s recorded %d messages, more arrived' % (n, len(msgs)), {'lines': lines})
            return
        arrival.append((i, n, msgs[pos[n]]))
        pos[n] += 1
    e0 = rng.choice(entries)
    texts = ['*', e0['rec']['iface'], '.' + e0['rec']['name'], str(e0['rec']['id']), names[victim] + ':', '! ' + e0['rec']['iface'], 'wl_*', '.new', '.destroyed']
    unresolved = sum(1 for i, n, m in arrival if m.obj.connection is None)
    ctx.count('late_unresolved_messages', unresolved)
    for sel in [None] + sorted(conns):
        s.command('connection ' + (sel or 'all'))
        for t in rng.sample(texts, 4):
            try:
                pm = matcher_mod.parse(t).simplify()
            except RuntimeError:
                continue
            scope = [(i, m) for i, n, m in arrival if sel is None or n == sel]
            hit = [i for i, m in scope if pm.matches(m)]
            for cap in (None, 1, max(1, len(hit) - 1), len(hit) + 1):
                cmd = 'list ' + t + ('' if cap is None else ' ~ %d' % cap)
                outs, errs, items = run_query(s, cmd)
                ctx.ev()
                ctx.count('late_queries')
                want = hit if cap is None else hit[-cap:]
                listed = [it['text'].strip().split(' ', 1)[1] for it in items if it['kind'] == 'msg']
                case = {'lines': lines, 'prime': [], 'script': ['connection ' + (sel or 'all')], 'query': cmd, 'late': True}
                if listed != [ref_text[i] for i in want]:
                    ctx.violation('list-selection', '[late attach] %r with connection %s selected listed %d messages, expected %d of the %d recorded in scope (%d unresolved in the stream)' % (
                        cmd, sel, len(listed), len(want), len(scope), unresolved), case)
                    return
                tail = [it for it in items if it['kind'] == 'count']
                if want and (not tail or tail[0]['matched'] + tail[0]['didnt'] + tail[0]['not_checked'] != len(scope) or tail[0]['matched'] != len(want)):
                    ctx.violation('list-counts', '[late attach] %r: %r, %d recorded in scope' % (cmd, tail and tail[0]['text'], len(scope)), case)
                    return
                if 0 < len(want) < len(scope) and unresolved:
                    ctx.sig(['late', h64(lines), sel, cmd])


def run(ctx, spec):
    env.setup()
    cands = wlxml.shipped(env.REPO)
    if spec.get('shard') == 0 and ctx.tier == 'thorough':
        from .. import objcheck
        objcheck.long_history(ctx, ctx.rng, cands, 101000)     # (more messages on one connection than any round number a cap might use below it)
    for i in range(spec['n']):
        # one long history per shard (several hundred recorded messages), the others short
        run_one(ctx, ctx.rng, cands, spec if i else dict(spec, n_each=[300, 420], queries=6))
        if i % 2 == 0:
            run_late(ctx, ctx.rng, cands, spec)
        if ctx.out_of_time():
            break


def finalize(m):
    if m['counters'].get('queries_partial', 0) == 0:
        return ['no query listed some-but-not-all messages']
    return []


def replay(ctx, case):
    env.setup()
    if 'long_history' in case:
        from .. import objcheck, wlxml as _w
        return objcheck.long_history(ctx, ctx.rng, _w.shipped(env.REPO), case['long_history'])
    from backends.libwayland_debug_output import parse
    s = Session()
    for c in case.get('prime', []):
        s.command(c)
    parser = parse.Parser(s.output, s.cm)
    for l in case['lines'][:case.get('fed', case.get('arrived', len(case['lines'])))]:
        try:
            cid, m = parse.message(l)
            parser.handle_message(cid, m)
        except RuntimeError as e:
            pass
    for c in case.get('script', []):
        if c.startswith('connection'):
            s.command(c)
    n0 = len(s.events)
    s.command(case['query'])
    for k, p in s.events[n0:]:
        print(k, outline.strip_sgr(str(p))[:220])
    if case.get('expected_listing') is not None:
        items = [outline.parse_line(p) for k, p in s.events[n0:] if k == 'out']
        listed = [i for i in items if i['kind'] == 'msg']
        ctx.ev()
        want = case['expected_listing']
        bad = len(listed) != len(want) or any(streams.compare_line(l['text'], w[0], w[1])[0] for l, w in zip(listed, want))
        tail = [i for i in items if i['kind'] == 'count']
        if not bad and want and (not tail or tail[0]['matched'] + tail[0]['didnt'] + tail[0]['not_checked'] != case['scope_size'] or tail[0]['matched'] != len(want)):
            bad = True
        if bad:
            ctx.violation('list-selection', '%r lists %d messages, the stored expectation has %d (scope %d)' % (case['query'], len(listed), len(want), case['scope_size']), case)
