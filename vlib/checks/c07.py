"""C07 - argument names, nil types and enum labels come from the protocol descriptions.
EXHAUSTIVE over the shipped protocol set (both tiers): every interface x message x argument position through the real
pipeline (one generated log per shard, objects created by wl_registry.bind), and for every enum-typed argument each
entry value, 0, a value outside the enum, and unions of bitfield entries; plus the lookup functions directly.
Oracle: vlib/wlxml.py (independent ElementTree reader; 'consistent with one highest-version candidate').
Version precedence: synthetic multi-version descriptions loaded through protocol.load() in every permutation.
Generated descriptions (mode `synthetic`): random protocol sets of 2..4 files describing interfaces vs_0..vs_5 at versions
1..12 (several files may describe one interface), every argument type, local / qualified / dangling enum references,
bitfields, hex / shifted / padded entry values, zero entries, equal entry values; loaded as the tool's whole protocol set
(plus the core protocol), then the same per-message sweep as for the shipped set."""
import itertools
import re
import os
import tempfile

from .. import wlxml, env, outline
from ..session import Session
from ..runner import h64

PROPERTY = 'C07'
RULE = ('every shipped interface x message (requests sent, events received, plus the flipped direction) x argument position; '
        'enum-typed integers: every entry value, 0, one value outside, bitfields: all subsets when <= 10 entries else singles + '
        'pairs + all + 64 random unions; nil for every object/nullable string argument; an interface unknown to the XML and undescribed names one edit or one version number away from described ones; '
        'synthetic 2..5-version descriptions in every load order; generated protocol sets (6 x 6 quick, 46 x 120 thorough) swept the '
        'same way (exhaustive refers to the shipped set). distinct = (interface, message, argument values); '
        'non-trivial = a line whose expectation contains a name, a nil type or a label')
ASSUMPTIONS = ['vlib/wlxml.py reads the XML correctly (ElementTree)',
               'the hand-applied enum tag table (HAND_TAGS) is specification copied from the property anchor',
               'where same-version descriptions differ the tool may pick either: a line must agree with one candidate']
REQUIRED = ['core/wl/protocol.py:load', 'core/wl/protocol.py:get_arg', 'core/wl/protocol.py:look_up_enum',
            'core/wl/protocol.py:look_up_interface', 'core/wl/protocol.py:get_enum', 'core/wl/protocol.py:parse_enum_value',
            'core/wl/arg.py:Arg.Int.resolve', 'core/wl/arg.py:Arg.Null.resolve', 'core/wl/protocol.py:load_all']


def EXHAUSTIVE(tier):
    return True


NSHARDS = 16


def plan(tier, seed):
    base = [{'mode': 'ifaces', 'slice': i} for i in range(NSHARDS)] + [{'mode': 'versions'}, {'mode': 'gdb_arrays', 'gdb_shim': True}, {'mode': 'system_dirs'}]
    # generated protocol descriptions (the property quantifies over whatever descriptions the tool loads, not only the shipped ones)
    if tier == 'quick':
        return base + [{'mode': 'synthetic', 'n': 6} for _ in range(6)]
    return base + [{'mode': 'synthetic', 'n': 120} for _ in range(46)]


def enum_values(rng, enum):
    vals = [v for _, v in enum['entries']]
    out = list(dict.fromkeys(vals + [0]))
    outside = max(vals + [0]) + 1
    while any(v == outside for v in vals):
        outside += 1
    out.append(outside)
    out.append(2**31)         # far outside / top bit
    if enum['bitfield']:
        if len(vals) <= 10:
            for r in range(2, len(vals) + 1):
                for comb in itertools.combinations(vals, r):
                    u = 0
                    for v in comb:
                        u |= v
                    out.append(u)
        else:
            for a, b in itertools.combinations(vals, 2):
                out.append(a | b)
            allv = 0
            for v in vals:
                allv |= v
            out.append(allv)
            for _ in range(64):
                u = 0
                for v in rng.sample(vals, rng.randint(2, len(vals))):
                    u |= v
                out.append(u)
        # bits that no entry has
        allv = 0
        for v in vals:
            allv |= v
        free = [1 << b for b in range(31) if not (allv >> b) & 1]
        out += free[:2]
    return list(dict.fromkeys(v for v in out if 0 <= v < 2**32))


def show_value(a):
    k = a[0]
    if k == 'int':
        return str(a[1])
    if k == 'fixed':
        return '1.500000'
    if k == 'str':
        return '"s x"'
    if k == 'nil':
        return 'nil'
    if k == 'obj':
        return '%s@%d' % (a[1], a[2])
    if k == 'new':
        return 'new id %s@%d' % (a[1], a[2])
    if k == 'array':
        return 'array'
    if k == 'fd':
        return 'fd 5'
    raise ValueError(k)


def expected_arg(cands, iface, msg, desc, a, decorate=True):
    """-> set of acceptable displays for one argument (over enum-owner candidates)"""
    pre = desc['name'] + '=' if decorate else ''
    k = a[0]
    if k == 'int':
        e = wlxml.arg_enum(iface, msg, desc) if decorate else None
        if e:
            # one acceptable display per highest-version description of the enum's owner (same-version ties: either);
            # an owner description without that enum leaves the value undecorated
            parts = [iface] + e.split('.')
            owner, ename = parts[-2], parts[-1]
            res = set()
            for d in cands.get(owner, []):
                if ename in d['enums']:
                    res.add(pre + '%d:%s' % (a[1], '&'.join(wlxml.labels_for(d['enums'][ename], a[1]))))
                else:
                    res.add(pre + str(a[1]))
            if res:
                return res
        return {pre + str(a[1])}
    if k == 'fixed':
        return {pre + '1.5'}
    if k == 'str':
        return {pre + "'s x'"}
    if k == 'nil':
        return {pre + 'null ' + ((desc.get('interface') if decorate else None) or '??')}
    if k == 'obj':
        return {pre + '%s@%da' % (a[1], a[2])}
    if k == 'new':
        return {pre + 'new %s@%da' % (a[1], a[2])}
    if k == 'array':
        return {pre + '[...]'}
    if k == 'fd':
        return {pre + 'fd 5'}
    raise ValueError(k)


class Gen:
    def __init__(self, cands, rng):
        self.cands = cands
        self.rng = rng
        self.lines = []
        self.expect = []      # per line: None (not checked) or dict(iface, msg, per_cand=[set of acceptable texts per candidate index])
        self.t = 1000
        self.inst = {}
        self.next_new = 100000

    def emit(self, text, exp=None):
        self.t += 7
        self.lines.append('[%10.3f] %s' % (self.t / 1000.0, text))
        self.expect.append(exp)

    def setup(self, names, extra_unknown):
        self.emit(' -> wl_display@1.get_registry(new id wl_registry@2)')
        nid = 3
        for n in names + extra_unknown:
            self.emit(' -> wl_registry@2.bind(%d, "%s", 1, new id [unknown]@%d)' % (nid, n, nid),
                      {'texts': [{"A: → wl_registry@2a.bind(%d, '%s', 1, new %s@%da)" % (nid, n, n, nid)}], 'iface': 'wl_registry', 'msg': 'bind'})
            self.inst[n] = nid
            nid += 1

    def default_args(self, iface, msg, desc_args):
        args = []
        for d in desc_args:
            ty = d['type']
            if ty in ('int', 'uint'):
                args.append(('int', 7))
            elif ty == 'fixed':
                args.append(('fixed',))
            elif ty == 'string':
                args.append(('str',))
            elif ty == 'object':
                tgt = d['interface']
                if tgt and tgt in self.inst:
                    args.append(('obj', tgt, self.inst[tgt]))
                elif tgt is None:
                    args.append(('obj', 'wl_registry', 2))
                else:
                    args.append(('nil',))
            elif ty == 'new_id':
                if not d['interface']:
                    return None
                self.next_new += 1
                args.append(('new', d['interface'], self.next_new))
            elif ty == 'array':
                args.append(('array',))
            elif ty == 'fd':
                args.append(('fd',))
            else:
                return None
        return args

    def message_line(self, iface, msg, variants_args, sent, decorate=True):
        """variants_args: list of argument tuples; expectation per candidate of the interface"""
        oid = self.inst[iface]
        cs = self.cands.get(iface) or [None]
        per_cand = []
        for c in cs:
            if c is None:
                texts = {', '.join(t) for t in itertools.product(*[expected_arg(self.cands, iface, msg, {'name': ''}, a, False) for a in variants_args])}
            else:
                md = c['messages'].get(msg)
                if md is None or len(md['args']) != len(variants_args):
                    per_cand.append(None)
                    continue
                texts = {', '.join(t) for t in itertools.product(*[expected_arg(self.cands, iface, msg, d, a) for d, a in zip(md['args'], variants_args)])}
            per_cand.append({'A: %s%s@%da.%s(%s)%s' % ('→ ' if sent else '', iface, oid, msg, t, '' if sent else ' ↲') for t in texts})
        self.emit('%s%s@%d.%s(%s)' % (' -> ' if sent else '', iface, oid, msg, ', '.join(show_value(a) for a in variants_args)),
                  {'per_cand': per_cand, 'iface': iface, 'msg': msg, 'args': [list(a) for a in variants_args]})


def run_ifaces(ctx, spec, synthetic=None):
    env.setup()
    rng = ctx.rng
    if synthetic is None:
        cands = wlxml.shipped(env.REPO)
        proto = env.load_protocols()
        names = sorted(n for n in cands if n != 'fake_enums')
        mine = names[spec['slice']::NSHARDS]
        extra_case = {}
    else:
        cands, proto, mine = synthetic['cands'], synthetic['proto'], synthetic['names']
        names = sorted(set(mine) | set(n for n in cands if n.startswith('vs_')))
        extra_case = {'xml': synthetic['xml']}
    g = Gen(cands, rng)
    unknown = ['zz_unknown_v1']
    # names no loaded XML describes although one a character or a version number away is described: next year's revision of an
    # unstable protocol, a vendor's variant.  They are as undescribed as zz_unknown_v1
    near_names = {}
    for n in rng.sample(mine, min(len(mine), 8)):
        m = re.search(r'_v(\d+)$', n)
        vs = [n + 'x', n[:-1], 'z' + n, n.capitalize(), n + '_v2', n + '_unstable']
        if m:
            k = int(m.group(1))
            stem = n[:m.start()]
            vs += ['%s_v%d' % (stem, k + 1), '%s_v%d' % (stem, k + 10), '%s_v%d' % (stem, k + 100), stem, stem[1:] if stem.startswith('z') else 'z' + stem, '%s_v0%d' % (stem, k)]
        for v in rng.sample(vs, min(len(vs), 4)):
            if v and v not in cands and v not in near_names and re.match(r'^[A-Za-z_][A-Za-z0-9_]*$', v):
                near_names[v] = n
    unknown += sorted(near_names)
    g.setup(names, unknown)
    skipped = 0
    api_checks = 0
    for iface in mine:
        cs = cands[iface]
        msgs = sorted(set().union(*[set(c['messages']) for c in cs]))
        for msg in msgs:
            if (iface, msg) == ('wl_registry', 'bind'):
                continue    # exempt: displayed undecorated (checked through the bind lines above)
            descs = [c['messages'].get(msg) for c in cs]
            if any(d is None for d in descs) or len({len(d['args']) for d in descs}) != 1:
                skipped += 1
                ctx.count('messages_skipped_candidates_disagree_on_arity')
                continue
            md = descs[0]
            base = g.default_args(iface, msg, md['args'])
            if base is None:
                ctx.count('messages_skipped_untyped_new_id')
                continue
            sent = not md['is_event']
            g.message_line(iface, msg, base, sent)
            # flipped direction (server-side log)
            base2 = g.default_args(iface, msg, md['args'])
            g.message_line(iface, msg, base2, not sent)
            for i, d in enumerate(md['args']):
                # direct lookups
                api_checks += check_api(ctx, proto, cands, iface, msg, i, cs)
                if d['type'] == 'object' or (d['type'] == 'string'):
                    v = g.default_args(iface, msg, md['args'])
                    v[i] = ('nil',)
                    g.message_line(iface, msg, v, sent)
                if d['type'] in ('int', 'uint'):
                    e = wlxml.arg_enum(iface, msg, d)
                    es = wlxml.find_enum(cands, iface, e) if e else []
                    if es:
                        vals = []
                        for x in es:
                            vals += enum_values(rng, x)
                        for val in dict.fromkeys(vals):
                            v = g.default_args(iface, msg, md['args'])
                            v[i] = ('int', val)
                            g.message_line(iface, msg, v, sent)
                            ctx.count('enum_value_lines')
                    else:
                        for val in (0, 4294967295):
                            v = g.default_args(iface, msg, md['args'])
                            v[i] = ('int', val)
                            g.message_line(iface, msg, v, sent)
    # an interface the tool has no description for: undecorated, not dropped
    if spec['slice'] == 0:
        g.inst['zz_unknown_v1'] = g.inst['zz_unknown_v1']
        for sent in (True, False):
            g.message_line('zz_unknown_v1', 'frob', [('int', 5), ('nil',), ('str',), ('obj', 'wl_registry', 2), ('fixed',), ('array',), ('fd',),
                                                    ('new', 'zz_other', g.next_new + 1)], sent)
            g.next_new += 1
    for v in sorted(near_names):
        cs = cands[near_names[v]]
        ms = sorted(m for m in cs[0]['messages'] if (near_names[v], m) != ('wl_registry', 'bind'))
        for msg in rng.sample(ms, min(len(ms), 3)):
            md = cs[0]['messages'][msg]
            base = g.default_args(near_names[v], msg, md['args'])
            if base is None:
                continue
            g.message_line(v, msg, base, not md['is_event'])
            ctx.count('lines_on_an_undescribed_neighbour_of_a_described_interface')
    s = Session()
    s.feed([l + '\n' for l in g.lines])
    per = s.per_read()
    surviving = {}
    for idx, exp in enumerate(g.expect):
        if exp is None:
            continue
        ctx.ev()
        outs = [outline.strip_sgr(p) for k, p in per.get(idx, []) if k == 'out']
        shown = [o for o in outs if outline.parse_line(o)['kind'] == 'msg']
        body = shown[0].strip().split(' ', 1)[1] if len(shown) == 1 else None
        if 'texts' in exp:
            ok = body in exp['texts'][0]
            allowed = exp['texts']
        else:
            pc = exp['per_cand']
            ok_c = [j for j, t in enumerate(pc) if t is not None and body in t]
            ok = bool(ok_c)
            allowed = [sorted(t)[:3] for t in pc if t]
            sv = surviving.setdefault(exp['iface'], set(range(len(pc))))
            sv &= set(ok_c)
            nontrivial = any('=' in x or 'null ' in x or ':' in x for t in pc if t for x in list(t)[:1])
            if nontrivial:
                ctx.sig([exp['iface'], exp['msg'], exp['args']])
        if not ok:
            ctx.violation('decoration', 'line %r shown as %r, acceptable %r' % (g.lines[idx], outs[:2], allowed[:2]),
                          dict({'lines': g.lines[:1 + len(names) + 2] + [g.lines[idx]], 'iface': exp.get('iface'), 'msg': exp.get('msg')}, **extra_case))
        elif len(ctx.samples) < 3 and 'per_cand' in exp and ':' in body and idx % 97 == 0:
            ctx.sample({'line': g.lines[idx], 'shown': body})
    for iface, sv in surviving.items():
        if not sv:
            ctx.violation('candidate-inconsistent', 'no single highest-version description of %s explains all of its lines' % iface,
                          dict({'iface': iface}, **extra_case))
    ctx.count('lines', len(g.lines))
    ctx.count('interfaces', len(mine))
    ctx.count('api_lookups', api_checks)


def check_api(ctx, proto, cands, iface, msg, i, cs):
    """the lookup functions themselves, against every candidate"""
    try:
        name = proto.get_arg_name(iface, msg, i)
        nil_if = proto.look_up_interface(iface, msg, i)
    except Exception as e:
        ctx.violation('api-exception', 'get_arg_name/look_up_interface(%s, %s, %d) raised %r' % (iface, msg, i, e), {'iface': iface, 'msg': msg, 'i': i})
        return 0
    ok = any(c['messages'][msg]['args'][i]['name'] == name and c['messages'][msg]['args'][i]['interface'] == nil_if for c in cs)
    if not ok:
        ctx.violation('api-name', '%s.%s arg %d: name %r interface %r, XML says %r' % (
            iface, msg, i, name, nil_if, [(c['messages'][msg]['args'][i]['name'], c['messages'][msg]['args'][i]['interface']) for c in cs]),
            {'iface': iface, 'msg': msg, 'i': i})
    return 1


# ----------------------------------------------------------------------------------------- version precedence

XML_T = '''<?xml version="1.0" encoding="UTF-8"?>
<protocol name="vq_proto_%(tag)s">
  <interface name="vq_iface" version="%(ver)d">
    <request name="m">
      <arg name="%(an)s" type="uint" enum="e"/>
      <arg name="o" type="object" interface="%(oi)s" allow-null="true"/>
    </request>
    <enum name="e"><entry name="%(en)s" value="1"/></enum>
  </interface>
  <interface name="vq_only_%(tag)s" version="1"><request name="x"><arg name="p%(tag)s" type="int"/></request></interface>
</protocol>
'''


XML_ENUMS = '''<?xml version="1.0" encoding="UTF-8"?>
<protocol name="vq_enums">
  <interface name="vq_owner" version="1">
    <enum name="kind"><entry name="owner_one" value="1"/><entry name="owner_two" value="2"/></enum>
    <enum name="flags" bitfield="true"><entry name="of_a" value="1"/><entry name="of_b" value="2"/><entry name="of_ab" value="3"/></enum>
    <request name="m"><arg name="k" type="uint" enum="kind"/></request>
  </interface>
  <interface name="vq_user" version="1">
    <enum name="kind"><entry name="user_one" value="1"/><entry name="user_nine" value="9"/></enum>
    <enum name="flags"><entry name="uf_one" value="1"/></enum>
    <request name="local"><arg name="k" type="uint" enum="kind"/><arg name="f" type="uint" enum="flags"/></request>
    <request name="remote"><arg name="k" type="uint" enum="vq_owner.kind"/><arg name="f" type="uint" enum="vq_owner.flags"/></request>
    <event name="missing"><arg name="k" type="uint" enum="vq_nowhere.kind"/><arg name="z" type="uint" enum="nope"/></event>
  </interface>
</protocol>
'''


def run_enum_paths(ctx, spec):
    """local vs `iface.enum` references when both interfaces define an enum of the same name (no shipped protocol has that)"""
    env.setup()
    from core.wl import protocol
    from core.output import Output, stream
    out = Output(False, False, stream.Null(), stream.Null())
    d = tempfile.mkdtemp(prefix='verif-c07-')
    try:
        p = os.path.join(d, 'enums.xml')
        open(p, 'w').write(XML_ENUMS)
        protocol.dump_all()
        protocol.load(p, out)
        cands = wlxml.load_candidates([p])
        for msg, nargs in (('local', 2), ('remote', 2), ('missing', 2)):
            md = cands['vq_user'][0]['messages'][msg]
            for i in range(nargs):
                for val in (0, 1, 2, 3, 4, 9, 2**31):
                    ctx.ev()
                    ctx.sig(['enum-path', msg, i, val])
                    e = wlxml.arg_enum('vq_user', msg, md['args'][i])
                    es = wlxml.find_enum(cands, 'vq_user', e)
                    want = wlxml.labels_for(es[0], val) if es else []
                    got = protocol.look_up_enum('vq_user', msg, i, val)
                    if got != want:
                        ctx.violation('enum-path', 'vq_user.%s arg %d (enum=%r) value %d: labels %r, the XML says %r' % (msg, i, md['args'][i]['enum'], val, got, want),
                                      {'enum_paths': True})
                        return
        ctx.sample({'synthetic_enum_paths': 'vq_user.remote(k: enum=vq_owner.kind) while vq_user also defines kind'})
    finally:
        import shutil
        shutil.rmtree(d, ignore_errors=True)


def run_versions(ctx, spec):
    env.setup()
    from core.wl import protocol
    from core.output import Output, stream
    out = Output(False, False, stream.Null(), stream.Null())
    rng = ctx.rng
    d = tempfile.mkdtemp(prefix='verif-c07-')
    try:
        sets = [[1, 2], [2, 1], [1, 3, 2], [1, 2, 3, 4], [5, 1, 3], [2, 2], [1, 3, 3], [1, 2, 3, 4, 5], [3, 1, 4, 1, 5]]
        for versions in sets:
            files = []
            for j, v in enumerate(versions):
                p = os.path.join(d, 'f%d_%d_%d.xml' % (len(versions), j, v))
                with open(p, 'w') as f:
                    f.write(XML_T % {'tag': 'f%d' % j, 'ver': v, 'an': 'name_f%d_v%d' % (j, v), 'oi': 'iface_f%d_v%d' % (j, v), 'en': 'label_f%d_v%d' % (j, v)})
                files.append((p, j, v))
            top = max(versions)
            winners = [(j, v) for _, j, v in files if v == top]
            perms = list(itertools.permutations(files))
            if len(perms) > 130:
                perms = rng.sample(perms, 130)
            for perm in perms:
                protocol.dump_all()
                for p, j, v in perm:
                    protocol.load(p, out)
                ctx.ev()
                ctx.sig(['versions', versions, [j for _, j, v in perm]])
                got = (protocol.get_arg_name('vq_iface', 'm', 0), protocol.look_up_interface('vq_iface', 'm', 1),
                       protocol.look_up_enum('vq_iface', 'm', 0, 1))
                acceptable = [('name_f%d_v%d' % w, 'iface_f%d_v%d' % w, ['label_f%d_v%d' % w]) for w in winners]
                if got not in acceptable:
                    ctx.violation('version-precedence', 'versions %r loaded in order %r: lookups give %r, highest version gives %r' % (
                        versions, [v for _, j, v in perm], got, acceptable), {'versions': versions, 'order': [[j, v] for _, j, v in perm]})
                # interfaces described once are all present whatever the order
                for _, j, v in perm:
                    if protocol.get_arg_name('vq_only_f%d' % j, 'x', 0) != 'pf%d' % j:
                        ctx.violation('version-lost-interface', 'interface vq_only_f%d lost' % j, {'versions': versions})
        ctx.sample({'versions_example': sets[2], 'orders': 'all permutations'})
        # a qualified enum reference across files: the user interface wins from one file, the enum's owner from the other
        # (each interface is described by its own highest version, wherever the reference is written)
        XF = '''<?xml version="1.0"?><protocol name="vq_cross_%(f)s">
<interface name="vq_cx_user" version="%(uv)d"><request name="m"><arg name="k_%(f)s" type="uint" enum="vq_cx_owner.e"/><arg name="b" type="uint" enum="vq_cx_owner.bits"/></request></interface>
<interface name="vq_cx_owner" version="%(ov)d"><enum name="e">%(entries)s</enum><enum name="bits" bitfield="true">%(bits)s</enum></interface>
</protocol>'''
        ent = lambda names: ''.join('<entry name="%s" value="%d"/>' % (n, i + 1) for i, n in enumerate(names))
        bit = lambda names: ''.join('<entry name="%s" value="%d"/>' % (n, 1 << i) for i, n in enumerate(names))
        pa, pb = os.path.join(d, 'cross_a.xml'), os.path.join(d, 'cross_b.xml')
        open(pa, 'w').write(XF % {'f': 'a', 'uv': 2, 'ov': 1, 'entries': ent(['one_a']), 'bits': bit(['r_a'])})
        open(pb, 'w').write(XF % {'f': 'b', 'uv': 1, 'ov': 2, 'entries': ent(['one_b', 'two_b']), 'bits': bit(['r_b', 'g_b', 'b_b'])})
        for order in ([pa, pb], [pb, pa]):
            protocol.dump_all()
            for p in order:
                protocol.load(p, out)
            ctx.ev()
            ctx.sig(['cross-file-enum', [os.path.basename(p) for p in order]])
            got = (protocol.get_arg_name('vq_cx_user', 'm', 0), protocol.look_up_enum('vq_cx_user', 'm', 0, 1), protocol.look_up_enum('vq_cx_user', 'm', 0, 2),
                   protocol.look_up_enum('vq_cx_user', 'm', 1, 6))
            want = ('k_a', ['one_b'], ['two_b'], ['g_b', 'b_b'])
            if got != want:
                ctx.violation('version-precedence', 'vq_cx_user (v2 in file a, v1 in b) refers to vq_cx_owner.e (v1 in a, v2 in b), loaded in order %r: name / labels %r, '
                              'each interface\'s highest version gives %r' % ([os.path.basename(p) for p in order], got, want), {'versions': 'cross-file'})
        # through the pipeline once: the display uses the winner
        protocol.dump_all()
        for p, j, v in files:
            protocol.load(p, out)
    finally:
        import shutil
        shutil.rmtree(d, ignore_errors=True)


def run_gdb_arrays(ctx, spec):
    """GDB mode shows the elements of an array argument; for array arguments that carry an enum (xdg_toplevel.configure states
    ...) every element is annotated like an integer argument.  Exhaustive over the shipped array arguments, through the
    unmodified plugin on the gdb shim."""
    env.setup(spec)
    from .. import gdbsim
    cands = wlxml.shipped(env.REPO)
    gs = gdbsim.GdbSession()
    gs.new_connection(0, 'client')
    t = [0]

    def deliver(rec):
        n0, _ = gs.mark()
        stop, exc = gs.deliver(gs.event_for(0, rec))
        return [outline.parse_line(l) for l in gs.written_since(n0)], exc
    deliver({'send_c': True, 'iface': 'wl_display', 'id': 1, 'name': 'get_registry', 'args': [{'k': 'n', 'v': 2, 'iface': 'wl_registry'}]})
    oid = 3
    for iface in sorted(cands):
        for c in cands[iface][:1]:
            for msg, md in sorted(c['messages'].items()):
                arr = [i for i, a in enumerate(md['args']) if a['type'] == 'array']
                if not arr or any(a['type'] in ('new_id', 'object') for a in md['args']) or len(cands[iface]) > 1:
                    continue
                deliver({'send_c': True, 'iface': 'wl_registry', 'id': 2, 'name': 'bind',
                         'args': [{'k': 'u', 'v': oid}, {'k': 's', 'v': iface}, {'k': 'u', 'v': 1}, {'k': 'n', 'v': oid, 'iface': None}]})
                for ai in arr:
                    e = wlxml.arg_enum(iface, msg, md['args'][ai])
                    es = wlxml.find_enum(cands, iface, e) if e else []
                    vals = ([v for _, v in es[0]['entries']] + [0, 9999]) if es else [0, 1, 7]
                    args = []
                    for i, a in enumerate(md['args']):
                        ty = a['type']
                        if i == ai:
                            args.append({'k': 'a', 'data': vals})
                        elif ty in ('int', 'uint'):
                            args.append({'k': 'i' if ty == 'int' else 'u', 'v': 7})
                        elif ty == 'fixed':
                            args.append({'k': 'f', 'v': 384})
                        elif ty == 'string':
                            args.append({'k': 's', 'v': 's x'})
                        elif ty == 'array':
                            args.append({'k': 'a', 'data': []})
                        elif ty == 'fd':
                            args.append({'k': 'h', 'v': 5})
                    items, exc = deliver({'send_c': not md['is_event'], 'iface': iface, 'id': oid, 'name': msg, 'args': args})
                    ctx.ev()
                    ctx.count('gdb_array_arguments')
                    case = {'gdb_array': [iface, msg, ai]}
                    msgs = [x for x in items if x['kind'] == 'msg']
                    if exc is not None or len(msgs) != 1 or msgs[0]['args'] is None or len(msgs[0]['args']) != len(args):
                        ctx.violation('gdb-array-line', '%s.%s: %r %r' % (iface, msg, exc, [x['text'] for x in items][:2]), case)
                        continue
                    tok = msgs[0]['args'][ai]
                    want = [(v, wlxml.labels_for(es[0], v) if es else None) for v in vals]
                    got = [(x['value'], x['labels']) for x in (tok['value'] or [])] if tok['kind'] == 'array' else None
                    if got is not None and any(x['name'] is not None for x in tok['value']):
                        got = 'elements carry names'
                    if got != want or tok['name'] != md['args'][ai]['name']:
                        ctx.violation('gdb-array-labels', '%s.%s argument %d shown as %r, the XML (enum %r) says %r' % (iface, msg, ai, tok['raw'][:200], e, want), case)
                    elif es:
                        ctx.sig(['gdb-array', iface, msg, ai])
                        ctx.count('gdb_array_arguments_with_enum')
                oid += 1


ARG_NAMES = ['x', 'y', 'id', 'name', 'serial', 'flags', 'mode', 'state', 'surface', 'time', 'value', 'fd', 'data', 'k', 'interface', 'new', 'e', 'type']
ENTRY_NAMES = ['none', 'one', 'two', 'left', 'right', 'top', 'all', 'a', 'b', 'ab', 'default', 'invalid', 'x1', 'x2', 'big', 'none2']


def gen_protocol_set(rng):
    """-> {file name: xml text}: 2..4 files, interfaces vs_0..vs_5 described in one or several files at versions 1..12"""
    pool = ['vs_%d' % i for i in range(6)]
    files = {}
    for f in range(rng.randint(2, 4)):
        out = ['<?xml version="1.0" encoding="UTF-8"?>', '<protocol name="vs_proto_%d">' % f,
               '  <copyright>none</copyright>', '  <description summary="generated">text</description>']
        for iname in rng.sample(pool, rng.randint(1, 5)):
            out.append('  <interface name="%s" version="%d">' % (iname, rng.choice([1, 1, 2, 3, 5, 9, 10, 11, 12])))
            out.append('    <description summary="s">d</description>')
            enames = ['e%d' % i for i in range(rng.randint(0, 4))]
            body = []
            for mi in range(rng.randint(1, 5)):
                tag = rng.choice(['request', 'event'])
                attrs = ' type="destructor"' if tag == 'request' and rng.random() < 0.1 else ''
                if rng.random() < 0.3:
                    attrs += ' since="%d"' % rng.randint(1, 12)
                m = ['    <%s name="m%d"%s>' % (tag, mi, attrs), '      <description summary="x"/>']
                for an in rng.sample(ARG_NAMES, rng.randint(0, 6)):
                    ty = rng.choice(['int', 'uint', 'uint', 'fixed', 'string', 'object', 'object', 'new_id', 'array', 'fd'])
                    a = '      <arg name="%s" type="%s"' % (an, ty)
                    if ty in ('object', 'new_id') and (ty == 'new_id' or rng.random() < 0.8):
                        a += ' interface="%s"' % rng.choice(pool + ['wl_surface', 'wl_output', 'vs_missing'])
                    if ty in ('object', 'string') and rng.random() < 0.5:
                        a += ' allow-null="%s"' % rng.choice(['true', 'true', 'false'])
                    if ty in ('int', 'uint') and rng.random() < 0.7:
                        r = rng.random()
                        if r < 0.55 and enames:
                            a += ' enum="%s"' % rng.choice(enames)
                        elif r < 0.85:
                            a += ' enum="%s.%s"' % (rng.choice(pool), rng.choice(['e0', 'e1', 'e2', 'e3']))
                        else:
                            a += ' enum="%s"' % rng.choice(['nope', 'vs_missing.e0', 'e9'])
                    if rng.random() < 0.3:
                        a += ' summary="an argument"'
                    m.append(a + '/>')
                m.append('    </%s>' % tag)
                body.append('\n'.join(m))
            for en in enames:
                bitfield = rng.random() < 0.5
                e = ['    <enum name="%s"%s>' % (en, ' bitfield="%s"' % ('true' if bitfield else 'false') if bitfield or rng.random() < 0.3 else '')]
                big = rng.random() < 0.15     # key-code style enums: dozens of entries, aliases (several names for one value)
                names = rng.sample(ENTRY_NAMES, rng.randint(1, 6)) if not big else ['k%d' % i for i in range(rng.randint(17, 40))]
                for nm in names:
                    if bitfield:
                        v = rng.choice([0, 1, 2, 4, 8, 3, 6, 16, 0x80000000, 12])
                    elif big:
                        v = rng.choice([0x110, 0x111, 7, 7, 9, rng.randint(0, 30), rng.randint(0, 30)])
                    else:
                        v = rng.choice([0, 1, 2, 3, 3, 7, 9, 100, 0x110, 4294967295])
                    if rng.random() < 0.12:
                        nm = str(v) if rng.random() < 0.6 else rng.choice(['90', '180', '270', '8', '10', '16'])     # numeric names (wl_output.transform has 90, 180, 270)
                        if any(('name="%s"' % nm) in line for line in e):
                            continue
                    r = rng.random()
                    if r < 0.25:
                        text = hex(v)
                    elif r < 0.35 and v and v & (v - 1) == 0:
                        text = '1 &lt;&lt; %d' % (v.bit_length() - 1)
                    elif r < 0.4:
                        text = ' %d ' % v
                    else:
                        text = str(v)
                    e.append('      <entry name="%s" value="%s"%s/>' % (nm, text, ' summary="s"' if rng.random() < 0.5 else ''))
                e.append('    </enum>')
                body.append('\n'.join(e))
            rng.shuffle(body)      # enums before or after the messages that use them
            out += body
            out.append('  </interface>')
        out.append('</protocol>')
        files['gen_%d.xml' % f] = '\n'.join(out) + '\n'
    return files


def load_synthetic(xml):
    """write the files, make them (plus the core protocol, for wl_display / wl_registry) the tool's whole protocol set"""
    from core.wl import protocol
    from core.output import Output, stream
    env.load_protocols()            # from now on Session() will not load anything by itself
    d = tempfile.mkdtemp(prefix='verif-c07-')
    paths = []
    for name, text in sorted(xml.items()):
        p = os.path.join(d, name)
        with open(p, 'w') as f:
            f.write(text)
        paths.append(p)
    core = [p for p in wlxml.shipped_files(env.REPO) if os.path.basename(p) == 'wayland.xml']
    out = Output(False, False, stream.Null(), stream.Null())
    protocol.dump_all()
    order = core + paths
    for p in order:
        protocol.load(p, out)
    return d, order, protocol


def run_synthetic(ctx, spec):
    env.setup()
    import shutil
    rng = ctx.rng
    for n in range(spec['n']):
        xml = gen_protocol_set(rng)
        d, order, proto = load_synthetic(xml)
        try:
            cands = wlxml.load_candidates(order)
            names = sorted(n for n in cands if n.startswith('vs_'))
            ctx.count('synthetic_protocol_sets')
            ctx.count('synthetic_interfaces', len(names))
            ctx.count('synthetic_interfaces_described_more_than_once', sum(1 for nm in names if sum(1 for t in xml.values() if 'name="%s"' % nm in t) > 1))
            run_ifaces(ctx, {'slice': 1}, {'cands': cands, 'proto': proto, 'names': names, 'xml': xml})
        finally:
            shutil.rmtree(d, ignore_errors=True)
        if ctx.out_of_time():
            break


def run_system_dirs(ctx, spec):
    """load_all() on a machine whose /usr/share/wayland holds OLDER copies of files the tool also ships (same file names):
    each interface is still described by its highest version.  The system directory is simulated by wrapping
    protocol.discover_xml (the only place where the path is used); everything else is the real load_all()."""
    import shutil
    import xml.sax.saxutils as su
    env.setup()
    from core.wl import protocol
    from core.output import Output, stream
    rng = ctx.rng
    shipped_dir = protocol.protocols_path()
    files = [f for f in wlxml.discover(shipped_dir)]
    rng.shuffle(files)
    d = tempfile.mkdtemp(prefix='verif-c07-sys-')
    orig = protocol.discover_xml
    try:
        made = []
        for f in files[:6]:
            descs = wlxml.read_file(f)
            out = ['<?xml version="1.0" encoding="UTF-8"?>', '<protocol name="old_copy">']
            for iname, dsc in descs.items():
                out.append('  <interface name="%s" version="1">' % iname)
                for mname, md in dsc['messages'].items():
                    tag = 'event' if md['is_event'] else 'request'
                    out.append('    <%s name="%s">' % (tag, mname))
                    for a in md['args'][:max(0, len(md['args']) - 0)]:
                        attrs = ' interface=%s' % su.quoteattr(a['interface']) if a['interface'] else ''
                        out.append('      <arg name="old_%s" type="%s"%s/>' % (a['name'], a['type'], attrs))
                    out.append('    </%s>' % tag)
                out.append('  </interface>')
            out.append('</protocol>')
            p2 = os.path.join(d, os.path.basename(f))
            with open(p2, 'w') as fh:
                fh.write('\n'.join(out) + '\n')
            made.append(p2)

        def fake(p, out, orig=orig, d=d):
            return orig(d, out) if p == '/usr/share/wayland' else orig(p, out)
        protocol.discover_xml = fake
        protocol.dump_all()
        protocol.load_all(Output(False, False, stream.Null(), stream.Null()))
        cands = wlxml.load_candidates(made + wlxml.shipped_files(env.REPO))
        n = 0
        for p2 in made:
            for iname in wlxml.read_file(p2):
                for c in cands.get(iname, [])[:1]:
                    for mname, md in c['messages'].items():
                        if (iname, mname) == ('wl_registry', 'bind') or not md['args']:
                            continue
                        ctx.ev()
                        n += 1
                        ctx.sig(['system-dir', iname, mname])
                        got = protocol.get_arg_name(iname, mname, 0)
                        want = [x['messages'][mname]['args'][0]['name'] for x in cands[iname] if mname in x['messages'] and x['messages'][mname]['args']]
                        if got not in want:
                            ctx.violation('version-precedence', 'an older %s (version 1 of everything) in /usr/share/wayland next to the shipped file: %s.%s '
                                          'argument 0 is named %r, the highest version (%d) says %r' % (os.path.basename(p2), iname, mname, got, c['version'], want[:2]),
                                          {'versions': 'system-dir'})
                            return
        ctx.count('system_dir_lookups', n)
    finally:
        protocol.discover_xml = orig
        shutil.rmtree(d, ignore_errors=True)


def run(ctx, spec):
    if spec.get('mode') == 'system_dirs':
        return run_system_dirs(ctx, spec)
    if spec.get('mode') == 'synthetic':
        return run_synthetic(ctx, spec)
    if spec.get('mode') == 'gdb_arrays':
        return run_gdb_arrays(ctx, spec)
    if spec.get('mode') == 'versions':
        run_versions(ctx, spec)
        run_enum_paths(ctx, spec)
    else:
        run_ifaces(ctx, spec)


def replay(ctx, case):
    env.setup()
    if case.get('versions') == 'system-dir':
        return run_system_dirs(ctx, {})
    if 'versions' in case:
        run_versions(ctx, {})
        return
    if 'xml' in case:
        import shutil
        d, order, proto = load_synthetic(case['xml'])
        try:
            cands = wlxml.load_candidates(order)
            if 'lines' in case:
                s = Session()
                s.feed([l + '\n' for l in case['lines']])
                for k, p in s.per_read().get(len(case['lines']) - 1, []):
                    print(k, outline.strip_sgr(p))
            run_ifaces(ctx, {'slice': 1}, {'cands': cands, 'proto': proto, 'names': sorted(n for n in cands if n.startswith('vs_')), 'xml': case['xml']})
        finally:
            shutil.rmtree(d, ignore_errors=True)
        return
    if 'lines' in case:
        s = Session()
        s.feed([l + '\n' for l in case['lines']])
        per = s.per_read()
        for k, p in per.get(len(case['lines']) - 1, []):
            print(k, outline.strip_sgr(p))
    run_ifaces(ctx, {'slice': 0})
