"""C16 - displayed times are the log's times relative to the first message.
Offline checker over the boundary event log with Decimal arithmetic on the log text:
 * time column of every shown message = (t_i - t_0) seconds, within one unit of the 4th decimal;
 * a separator line between two messages shown one after the other (live view, filters and selection applied; or
   inside one listing) iff their exact gap is > 1 s, showing that gap; nowhere else;
 * metamorphic: the same log with a constant added to every time (and the other decimal mark) shows the same thing,
   numbers within one unit of their last digit.
A live message that directly follows a `list` block is unspecified (the tool resets its reference point)."""
import re
from decimal import Decimal

from .. import wlxml, streams, env, outline, history
from ..session import Session
from ..runner import h64

PROPERTY = 'C16'
RULE = ('streams of 1..3 connections with gaps drawn from {0, 1us.., 999.999ms, 1000.000ms, 1000.001ms, 1.5s, 2s, up to hours}, '
        'both dialects and decimal marks, filters selecting sparse subsets (-f type / name / id matchers taken from the stream), '
        'listings (`list`, `list X:`, `list ~ N`, `list <matcher>`), shifts {1us, 1ms, 1s, 123456.789ms, 10^7ms, random}. '
        'distinct = (stream hash, filter, shift); non-trivial = at least one gap within 1ms of the one-second threshold or > 1s')
ASSUMPTIONS = ['one unit of the last printed digit is allowed on every displayed time and gap (binary float rounding)',
               'a live message following a list block is unspecified']
REQUIRED = ['frontends/tui/controller.py:Controller._show_message', 'core/wl/message.py:Message.show', 'core/wl/message.py:Message.__init__']
ONE_S = 1000000


def plan(tier, seed):
    if tier == 'quick':
        return [{'n': 45, 'len': [30, 160]} for _ in range(16)]
    return [{'n': 400, 'len': [30, 400]} for _ in range(64)]


def pick_filter(rng, st):
    r = rng.random()
    if r < 0.3:
        return None
    e = rng.choice(st['entries'])
    if r < 0.5:
        return e['rec']['iface']
    if r < 0.65:
        return '.' + e['rec']['name']
    if r < 0.8:
        return str(e['rec']['id'])
    if r < 0.9:
        return '! ' + e['rec']['iface']
    return st['names'][e['ci']] + ':'


def shown_sequence(s, st):
    """display order of the live phase: ('msg', input index, time_s, item) / ('sep', gap_s) / ('list',) for a whole
    listing block (its own lines are checked by check_listing)"""
    seq = []
    cur = None
    in_list = False
    for k, p in s.events:
        if k == 'read':
            cur = p
        elif k == 'eof':
            cur = None
        elif k == 'out':
            it = outline.parse_line(outline.strip_sgr(p))
            if it['kind'] == 'list_head':
                in_list = True
                seq.append(('list',))
            elif in_list:
                if it['kind'] in ('count', 'none_of', 'no_messages'):
                    in_list = False
            elif it['kind'] == 'msg':
                seq.append(('msg', cur, it['time'], it))
            elif it['kind'] == 'sep':
                seq.append(('sep', it['gap']))
    return seq


def check_live(ctx, st, times, seq, t0, case, tag=''):
    """times: per input index exact us.  Walk the display order."""
    prev = None       # exact time of the previously shown message (None at start)
    after_list = False
    pending_sep = None
    n_thresh = 0
    for ev in seq:
        if ev[0] == 'sep':
            if pending_sep is not None:
                ctx.violation('separator-double', tag + 'two separators in a row', case)
                return n_thresh
            pending_sep = ev[1]
        elif ev[0] == 'msg':
            idx = ev[1]
            if idx is None:
                # a message shown outside the live phase (inside a listing) - handled by check_listing
                pending_sep = None
                prev = None
                after_list = True
                continue
            t = times[idx]
            if not streams.within_one_unit(ev[2], t - t0):
                ctx.violation('time-column', tag + 'line %d shown at %ss, log offset is %d us' % (idx, ev[2], t - t0), case)
                return n_thresh
            if prev is not None:
                gap = t - prev
                if abs(gap - ONE_S) <= 1000 or gap > ONE_S:
                    n_thresh += 1
                if after_list and pending_sep is None:
                    pass        # unspecified: the tool forgets its reference point after a listing
                elif gap > ONE_S and pending_sep is None:
                    ctx.violation('separator-missing', tag + 'gap of %d us before line %d (%s) without a separator' % (gap, idx, st['entries'][idx]['line'][:80]), case, gap_us=gap)
                    return n_thresh
                elif gap <= ONE_S and pending_sep is not None:
                    ctx.violation('separator-spurious', tag + 'separator %ss before line %d although the exact gap is %d us' % (pending_sep, idx, gap), case, gap_us=gap)
                    return n_thresh
                elif pending_sep is not None and not streams.within_one_unit(pending_sep, gap):
                    ctx.violation('separator-value', tag + 'separator says %ss, exact gap %d us' % (pending_sep, gap), case, gap_us=gap)
                    return n_thresh
            elif pending_sep is not None and not after_list:
                ctx.violation('separator-first', tag + 'separator before the first shown message', case)
                return n_thresh
            prev = t
            pending_sep = None
            after_list = False
        elif ev[0] == 'list':
            after_list = True
            pending_sep = None
    if pending_sep is not None:
        ctx.violation('separator-trailing', tag + 'separator not followed by a message', case)
    return n_thresh


def check_listing(ctx, st, s, cmd, times, t0, case):
    """separators inside one listing: map listed lines back to input lines by order + text + time"""
    n0 = len(s.events)
    s.command(cmd)
    items = [outline.parse_line(outline.strip_sgr(p)) for k, p in s.events[n0:] if k == 'out']
    if not items or items[0]['kind'] != 'list_head':
        return
    ctx.count('listings')
    by_text = {}
    for i, e in enumerate(st['entries']):
        by_text.setdefault(e['gt_text'], []).append(i)
    last = -1
    prev = None
    pending = None
    for it in items[1:]:
        if it['kind'] == 'sep':
            if pending is not None:
                ctx.violation('separator-double', 'listing %r: two separators in a row' % cmd, case)
                return
            pending = it['gap']
        elif it['kind'] == 'msg':
            key = re.sub(FLOATISH, 'F', re.sub(r' after -?\d+\.\d{4}s', ' after LIFE', it['text'].strip().split(' ', 1)[1]))
            cand = [i for i in by_text.get(key, []) if i > last and streams.within_one_unit(it['time'], times[i] - t0)]
            if not cand:
                ctx.count('listing_unmappable')
                return
            ambiguous = len(cand) > 1
            idx = cand[0]
            if prev is not None:
                # several input lines may print alike within one unit of the time column: the listed line is any of them, and
                # so was the one before.  A verdict needs every possible pairing to agree on it
                verdicts = []
                for pt in prev:
                    for i in cand:
                        gap = times[i] - pt
                        if gap > ONE_S and pending is None:
                            verdicts.append(('separator-missing', 'listing %r: gap %d us before %r without separator' % (cmd, gap, it['text'][:80]), gap))
                        elif gap <= ONE_S and pending is not None:
                            verdicts.append(('separator-spurious', 'listing %r: separator %ss though exact gap is %d us' % (cmd, pending, gap), gap))
                        elif pending is not None and not streams.within_one_unit(pending, gap):
                            verdicts.append(('separator-value', 'listing %r: separator says %ss, exact gap %d us' % (cmd, pending, gap), gap))
                        else:
                            verdicts.append(None)
                if len(verdicts) > 1:
                    ctx.count('listing_ambiguous_pairings')
                if all(v is not None for v in verdicts):
                    if len(verdicts) > 1 and any(abs(v[2] - ONE_S) <= 500 for v in verdicts):
                        ctx.count('listing_ambiguous_skipped')
                    else:
                        ctx.violation(verdicts[0][0], verdicts[0][1], case, gap_us=verdicts[0][2])
                        return
            elif pending is not None:
                ctx.violation('separator-first', 'listing %r: separator before the first listed message' % cmd, case)
                return
            prev = [times[i] for i in cand]
            last = idx
            pending = None
        elif it['kind'] in ('count', 'none_of', 'no_messages'):
            if pending is not None:
                ctx.violation('separator-trailing', 'listing %r: separator before the count line' % cmd, case)
            return


FLOATISH = r'(?<![\w@.])-?\d+\.\d+(?:e[+-]?\d+)?(?![\w.])'


def skeleton(s):
    """display with all fractional numbers blanked: what must be identical under a time shift"""
    out = []
    for k, p in s.events:
        if k in ('out', 'err'):
            t = outline.strip_sgr(p)
            it = outline.parse_line(t)
            if it['kind'] == 'msg':
                out.append(('msg', re.sub(r' after -?\d+\.\d{4}s', ' after LIFE', t.strip().split(' ', 1)[1])))
            elif it['kind'] == 'sep':
                out.append(('sep',))
            elif it['kind'] == 'stopped':
                out.append((k, re.sub(r' after -?\d+\.\d{4}s', ' after LIFE', t)))
            else:
                out.append((k, t))
    return out


def numbers(s):
    out = []
    for k, p in s.events:
        if k == 'out':
            it = outline.parse_line(outline.strip_sgr(p))
            if it['kind'] == 'msg':
                out.append(it['time'])
                if it['life'] is not None:
                    out.append(it['life'])
            elif it['kind'] == 'sep':
                out.append(it['gap'])
            elif it['kind'] == 'stopped':
                m = re.search(r' after (-?\d+\.\d{4})s', outline.strip_sgr(p))
                if m:
                    out.append(m.group(1))
    return out


def run_case(ctx, st, filt, shift, other_dialect, list_cmds, case, hooks=None, brk=None, prefix=None):
    lines = [e['line'] for e in st['entries']]
    times = [e['rec']['t_us'] for e in st['entries']]
    t0 = times[0]
    s = Session(filter_text=filt, stop_text=brk)
    s.feed([l + '\n' for l in lines], hooks=hooks)
    seq = shown_sequence(s, st)
    ctx.count('stopped_notices', sum(1 for k, p in s.events if k == 'ui' and p == 'pause'))
    n_thresh = check_live(ctx, st, times, seq, t0, case)
    ctx.count('shown_messages', sum(1 for e in seq if e[0] == 'msg'))
    ctx.count('separators_seen', sum(1 for e in seq if e[0] == 'sep'))
    ctx.count('threshold_or_larger_gaps', n_thresh)
    for cmd in list_cmds:
        check_listing(ctx, st, s, cmd, times, t0, dict(case, command=cmd))
    # metamorphic: shift
    s2 = Session(filter_text=filt, stop_text=brk)
    lines2 = streams.shifted_lines(st, shift, other_dialect)
    if prefix:
        lines2 = [p + l for p, l in zip(prefix, lines2)]
    s2.feed([l + '\n' for l in lines2], hooks=hooks)
    a, b = skeleton(s), skeleton(s2)
    # listings issued on s only: compare the live phase
    b_live = b
    a_live = a[:len(b_live)]
    if a_live != b_live:
        j = next((j for j in range(min(len(a_live), len(b_live))) if a_live[j] != b_live[j]), min(len(a_live), len(b_live)))
        ctx.violation('shift-variance', 'shift by %d us changes item %d: %r vs %r' % (shift, j, a_live[j:j + 1], b_live[j:j + 1]),
                      dict(case, shift_us=shift, other_dialect=other_dialect))
    else:
        na, nb = numbers(s)[:len(numbers(s2))], numbers(s2)
        for x, y in zip(na, nb):
            if abs(Decimal(x) - Decimal(y)) > Decimal('0.00011'):
                ctx.violation('shift-number', 'a displayed number changes from %s to %s under a shift of %d us' % (x, y, shift),
                              dict(case, shift_us=shift, other_dialect=other_dialect))
                break
    return n_thresh


def run(ctx, spec):
    env.setup()
    cands = wlxml.shipped(env.REPO)
    rng = ctx.rng
    for i in range(spec['n']):
        k = rng.choice([1, 1, 2, 3])
        back = rng.choice([0.0, 0.0, 0.05, 0.15])
        t0 = rng.choice([10**7, 10**7 + 1000, 2826065 + 10**7, rng.randint(10**7, 4 * 10**9)]) if back else rng.choice([0, 0, 1000, 2826065, rng.randint(0, 4 * 10**9)])
        wrap = rng.random() < 0.12
        if wrap:
            # the log crosses the wrap of libwayland's 32-bit microsecond clock: times drop by ~4295 s in the middle
            t0 = 2 ** 32 - rng.choice([1, 1000, 999999, 1000001, rng.randint(1, 30 * 10 ** 6)])
            ctx.count('streams_crossing_the_clock_wrap')
        st = streams.build(rng, cands, k=k, n_each=tuple(spec['len']), tagged=(k > 1 or rng.random() < 0.3),
                           opts={'big_gaps': rng.choice([0.3, 0.6]) if not wrap else 0.02, 'equal_times': 0.1, 'thresh': rng.choice([0.1, 0.3]), 'backsteps': back, 'wrap': wrap}, t0=t0)
        if not wrap and rng.random() < 0.12:
            # another producer's spelling of the same number of milliseconds: more fraction digits (zeros appended), or no trailing
            # zeros (`350.9` for `350.900`).  The value, and with it everything shown, is unchanged
            how = rng.choice(['pad4', 'pad6', 'strip'])
            for e in st['entries']:
                m = re.match(r'\[\s*(\d+)([.,])(\d{3})\]', e['line'])
                frac = m.group(3) + {'pad4': '0', 'pad6': '000', 'strip': ''}[how]
                if how == 'strip':
                    frac = frac.rstrip('0') or '0'
                e['line'] = '[%s%s%s]' % (m.group(1), m.group(2), frac) + e['line'][m.end():]
            ctx.count('streams_with_another_number_of_fraction_digits')
        prefix = None
        if rng.random() < 0.12:
            # the log as a journal / a supervisor hands it on: every line behind that tool's own stamp (a bracketed number
            # that is not the message's time)
            kind = rng.choice(['journal', 'syslog', 'kmsg', 'tag'])
            base = rng.randint(0, 10 ** 6)
            prefix = [{'journal': '[%12.6f] host weston[812]: ' % (base + j * 0.013), 'syslog': 'Jan 01 12:00:%02d host app[12]: ' % (j % 60),
                       'kmsg': '<6>[%5d.%03d] ' % (base % 10000 + j, j % 1000), 'tag': 'stderr| '}[kind] for j in range(len(st['entries']))]
            for j, e in enumerate(st['entries']):
                e['line'] = prefix[j] + e['line']
            ctx.count('streams_with_a_prefix_on_every_line')
        for e in st['entries']:
            e['gt_text'] = re.sub(r'FLOAT', 'F', history.expected_text(e['rec'], e['side'], st['names'][e['ci']]))
        filt = pick_filter(rng, st)
        shift = rng.choice([1, 1000, ONE_S, 123456789, 10**10, rng.randint(1, 10**10)])
        od = dict(st['dialect'])
        if not od['new'] and rng.random() < 0.5:
            od['comma'] = not od['comma']
        e = rng.choice(st['entries'])
        list_cmds = ['list', 'list *', 'list %s:' % st['names'][e['ci']], 'list ~ %d' % rng.randint(1, 30), 'list ' + e['rec']['iface'], 'list .' + e['rec']['name']]
        hooks = {}
        for _ in range(rng.choice([0, 0, 1, 2, 4])):
            hooks.setdefault(rng.randint(1, len(st['entries'])), []).append(rng.choice(list_cmds + ['connection all', 'filter', 'breakpoint', 'help', 'connection all']))
        # a breakpoint too: in file / pipe / run mode a hit prints a notice and the stream goes on
        brk = pick_filter(rng, st) if rng.random() < 0.45 else None
        case = {'lines': [x['line'] for x in st['entries']], 'filter': filt, 'breakpoint': brk, 'k': k, 'hooks': {str(a): b for a, b in hooks.items()}}
        n = run_case(ctx, st, filt, shift, od, list_cmds, case, hooks, brk, prefix)
        ctx.count('mid_stream_listings', sum(len(v) for v in hooks.values()))
        ctx.ev(len(st['entries']))
        if n:
            ctx.sig([h64(case['lines']), filt, shift])
        if len(ctx.samples) < 2:
            ctx.sample({'filter': filt, 'shift_us': shift, 'lines_head': case['lines'][:3], 'threshold_or_larger_gaps_between_shown': n})
        if ctx.out_of_time():
            break


def finalize(m):
    if m['counters'].get('separators_seen', 0) == 0:
        return ['no separator was ever displayed']
    return []


def times_of(lines):
    out = []
    for l in lines:
        m = re.match(r'\[\s*(\d+)[.,](\d{1,6})\]', l)
        out.append(int(m.group(1)) * 1000 + int((m.group(2) + '00')[:3]))
    return out


def replay(ctx, case):
    env.setup()
    hooks = {int(a): b for a, b in (case.get('hooks') or {}).items()}
    s0 = Session(filter_text=case.get('filter'), stop_text=case.get('breakpoint'))
    s0.feed([l + '\n' for l in case['lines']], hooks=hooks)
    times = times_of(case['lines'])
    st = {'entries': [{'line': l} for l in case['lines']]}
    ctx.ev()
    check_live(ctx, st, times, shown_sequence(s0, st), times[0], case, tag='[replay] ')
    s = Session(filter_text=case.get('filter'), stop_text=case.get('breakpoint'))
    s.feed([l + '\n' for l in case['lines']], hooks={int(a): b for a, b in (case.get('hooks') or {}).items()})
    if case.get('command'):
        s.command(case['command'])
    for k, p in s.events:
        if k in ('out', 'err', 'cmd'):
            print(k, outline.strip_sgr(p) if k != 'cmd' else p)
