"""C15 - GDB mode follows libwayland's connections as they come and go.
History + model: sequences of libwayland events - messages on one of several wl_connection addresses from one of several
threads (materialised closures, real extract + plugin code on the gdb shim), wl_connection_destroy of known / already
closed / never-seen addresses, address reuse - against a connection-manager model: first message on an address opens a
connection (notice + next name), destroy closes it, a later message on the same address is a NEW connection with a new
name and a fresh object table (its simulated history starts again at wl_display@1a / @2a ...), every line shown equals
the ground truth of its own connection's history, and no exception escapes any breakpoint's stop()."""
import re
from .. import env, gdbsim, wlxml, history, outline, streams
from ..runner import h64

PROPERTY = 'C15'
RULE = ('event sequences of up to 300 events over <= 4 addresses and 3 threads: messages (each connection follows its own simulated, well-formed '
        'history, client or server side), destroy of a known / closed / never-seen address, reuse of an address by a new connection, reuse of the owning '
        'wl_display / wl_client struct, `wl` commands between events, entries into 14 other libwayland functions (teardown entry points included). '
        'distinct = hash of the event-kind sequence; non-trivial = sequence with at least one destroy and one address reuse')
ASSUMPTIONS = ['the gdb shim run loop calls stop() of the breakpoints set on the function an event occurs in, as gdb does',
               'time columns are wall-clock in GDB mode and are ignored', 'lines with array arguments are compared up to the array contents']
REQUIRED = ['backends/gdb_plugin/plugin.py:Plugin.process_message', 'backends/gdb_plugin/plugin.py:Plugin.close_connection',
            'backends/gdb_plugin/plugin.py:WlConnectionDestroyBreakpoint.stop', 'backends/gdb_plugin/plugin.py:WlClosureCallBreakpoint.stop',
            'backends/gdb_plugin/extract.py:connection_id_of']


def plan(tier, seed):
    if tier == 'quick':
        return [{'n': 50, 'gdb_shim': True, 'len': [20, 150]} for _ in range(14)] + [{'mode': 'tierb', 'n': 3, 'gdb_shim': True, 'len': [20, 120]} for _ in range(2)]
    return [{'n': 300, 'gdb_shim': True, 'len': [20, 300]} for _ in range(56)] + [{'mode': 'tierb', 'n': 15, 'gdb_shim': True, 'len': [20, 300]} for _ in range(8)]


def role_name(first_rec, side):
    if first_rec['name'] == 'get_registry':
        sent = first_rec['send_c'] if side == 'client' else not first_rec['send_c']
        return 'client' if sent else 'server'
    return 'unknown type'


def gen_sequence(rng, cands, spec):
    """abstract event sequence with the model's expectations (independent of the backend that executes it)"""
    n_addr = rng.randint(1, 4)
    slots = [None] * n_addr
    used = [False] * n_addr
    model = []
    events = []
    for step in range(rng.randint(*spec['len'])):
        r = rng.random()
        slot = rng.randrange(n_addr)
        thread = rng.choice([1, 1, 1, 2, 3])
        if r < 0.78:
            key = slots[slot]
            opened_now = False
            if key is None:
                side = rng.choice(['client', 'server'])
                sim = history.generate(rng, cands, rng.randint(8, 60), {'first': rng.choice(['get_registry', 'get_registry', 'sync', None]), 'hot': rng.choice([0.1, 0.4])})
                key = len(model)
                prev = [m for m in model if m['slot'] == slot]
                # the wl_display / wl_client struct of a destroyed connection of the same side may be handed out again by
                # malloc independently of the wl_connection itself (tier A only)
                gone = [m['key'] for m in model if m['side'] == side and slots[m['slot']] != m['key'] and not m.get('owner_taken')]
                owner_of = rng.choice(gone) if gone and rng.random() < 0.35 else None
                if owner_of is not None:
                    model[owner_of]['owner_taken'] = True
                model.append({'key': key, 'name': streams.conn_name(len(model)), 'sim': sim, 'pos': 0, 'side': side, 'slot': slot,
                              'reuse_of': prev[-1]['key'] if prev else None, 'owner_of': owner_of})
                slots[slot] = key
                used[slot] = True
                opened_now = True
            m = model[key]
            if m['pos'] >= len(m['sim'].hist):
                continue
            rec = m['sim'].hist[m['pos']]
            m['pos'] += 1
            events.append({'type': 'msg', 'slot': slot, 'key': key, 'thread': thread, 'rec': rec, 'side': m['side'], 'opened_now': opened_now,
                           'name': m['name'], 'role': role_name(rec, m['side']) if opened_now else None, 'reuse_of': m['reuse_of'] if opened_now else None,
                           'owner_of': m.get('owner_of') if opened_now else None,
                           # on its way to this message the program passed through other libwayland functions on this connection; a
                           # compositor's destroy listeners may still send events to a client that wl_client_destroy() is tearing down
                           'enters': ([f for f in rng.sample(sorted(gdbsim.OTHER_FUNCTIONS), rng.randint(1, 3))
                                       if gdbsim.OTHER_FUNCTIONS[f] in ('connection', 'client' if m['side'] == 'server' else 'display') and f != 'wl_display_disconnect']
                                      if rng.random() < 0.12 and not opened_now else []),
                           # the user interrupted the program, typed a `wl` command that does not resume, and let it go on with gdb's own `continue`
                           'command_before': rng.choice(['help', 'list ~ 1', 'connection', 'filter', 'matcher wl_surface']) if rng.random() < 0.08 else None})
        else:
            key = slots[slot]
            what = 'never-seen' if not used[slot] else ('known' if key is not None else 'already-closed')
            events.append({'type': 'destroy', 'slot': slot, 'key': key, 'thread': thread, 'what': what, 'name': model[key]['name'] if key is not None else None,
                           # wl_connection_destroy() is reached through wl_display_disconnect() / wl_client_destroy() (its output, if any, counts as the destroy's)
                           'teardown_first': key is not None and rng.random() < 0.6, 'side': model[key]['side'] if key is not None else None})
            if key is not None:
                slots[slot] = None
    return events, model


def execute_shim(events, rng):
    """tier A: the plugin on the ctypes gdb module (session configuration varied: --verbose, --supress)"""
    gs = gdbsim.GdbSession(verbose=rng.random() < 0.3, show_unprocessed=rng.random() < 0.7)
    obs = []
    slot_key = {}
    for ev in events:
        n0, x0 = gs.mark()
        if ev['type'] == 'msg':
            if ev.get('command_before'):
                gs.sim.command('wl', ev['command_before'])
                n0, x0 = gs.mark()
            if ev['opened_now']:
                if ev['reuse_of'] is None:
                    gs.new_connection(ev['key'], ev['side'], owner_of=ev.get('owner_of'))
                else:
                    gs.reuse_address(ev['key'], ev['reuse_of'], ev['side'], owner_of=ev.get('owner_of'))
                slot_key[ev['slot']] = ev['key']
            for f in ev.get('enters') or ():
                stop, exc = gs.enter(ev['key'], f, ev['thread'])
                if stop or exc is not None or gs.written_since(n0):
                    obs.append({'lines': gs.written_since(n0), 'stop': stop, 'exc': None if exc is None else '%s: %r' % (type(exc).__name__, exc), 'entered': f})
                    return obs, None
            stop, exc = gs.deliver(gs.event_for(ev['key'], ev['rec'], rng, ev['thread']))
        else:
            if ev.get('teardown_first'):
                stop, exc = gs.enter(slot_key[ev['slot']], gdbsim.TEARDOWN[ev['side']], ev['thread'])
                if stop or exc is not None:
                    obs.append({'lines': gs.written_since(n0), 'stop': stop, 'exc': None if exc is None else '%s: %r' % (type(exc).__name__, exc), 'entered': gdbsim.TEARDOWN[ev['side']]})
                    return obs, None
            if ev['what'] == 'never-seen':
                addr = gs.world.connection()
            else:
                addr = gs.conns[slot_key[ev['slot']]]['addr']
            stop, exc = gs.sim.deliver({'kind': 'destroy', 'connection': addr, 'thread': ev['thread']})
        obs.append({'lines': gs.written_since(n0), 'stop': stop, 'exc': None if exc is None else '%s: %r' % (type(exc).__name__, exc)})
    conns = [(c.name(), c.is_open(), len(c.messages())) for c in gs.cm.connections()]
    return obs, conns


def execute_gdb(events, rng):
    """tier B: the plugin inside real gdb 13 on the synthetic libwayland-ABI inferior"""
    import re
    from .. import gdbreal
    script = gdbreal.Script()
    conn_of_key = {}
    seqs = []
    for ev in events:
        if ev['type'] == 'msg':
            if ev['opened_now']:
                if ev['reuse_of'] is None:
                    conn_of_key[ev['key']] = script.conn(ev['side'])
                else:
                    conn_of_key[ev['key']] = script.reuse(conn_of_key[ev['reuse_of']], ev['side'])
            rec = ev['rec']
            request = rec['send_c']
            sending = request if ev['side'] == 'client' else not request
            args = []
            for a in rec['args']:
                a = dict(a)
                if a['k'] == 'o':
                    a['decl'] = None if a['v'] is None else a['v']['iface']
                args.append(a)
            seqs.append(script.event(conn_of_key[ev['key']], ev['thread'], sending, rng.choice([0, 1]), rec['iface'], rec['id'], rec['name'],
                                     gdbsim.signature_of(rng, {'args': args}), args))
        else:
            if ev['what'] == 'never-seen':
                seqs.append(script.destroy(-1))
            else:
                k = [e['key'] for e in events[:events.index(ev)] if e['type'] == 'msg' and e['slot'] == ev['slot']][-1]
                seqs.append(script.destroy(conn_of_key[k]))
    r = gdbreal.run(script, argv_opts=['-C'] + (['--verbose'] if rng.random() < 0.3 else []))
    if not any(x['t'] == 'loaded' for x in r['records']):
        raise RuntimeError('the plugin did not load inside gdb: ' + r['stderr'][-300:])
    by_seq = {}
    halts = set()
    for x in r['records']:
        if x['t'] == 'write' and not re.match(r'^(WARNING|ERROR|INFO|DEBUG|CRITICAL):', x['text']):
            by_seq.setdefault(x['seq'], []).extend(l for l in x['text'].split('\n') if l)
        elif x['t'] == 'halt':
            halts.add(x['seq'])
    exc_text = 'Python Exception' in r['stderr'] or 'Traceback (most recent call last)' in r['stderr']
    obs = []
    for s in seqs:
        obs.append({'lines': by_seq.get(s, []), 'stop': s in halts,
                    'exc': ('a Python exception was printed by gdb (see stderr): ' + r['stderr'][-400:]) if (s in halts and exc_text) else None})
    if not any(x['t'] == 'exited' for x in r['records']):
        obs.append({'lines': [], 'stop': True, 'exc': 'the inferior did not run to its end under gdb: ' + r['stderr'][-300:]})
    return obs, None


def judge(ctx, events, model, obs, conns, tier):
    case_events = []
    full = [dict(e, rec=(None if e.get('rec') is None else {k: v for k, v in e['rec'].items()})) for e in events]
    for step, (ev, ob) in enumerate(zip(events, obs)):
        ctx.ev()
        if ob.get('entered'):
            ctx.violation('other-function', '[tier %s] the program entered %s() on connection %s: halted=%r, exception %r, output %r - the plugin has no business there' % (
                tier, ob['entered'], ev.get('name'), ob['stop'], ob['exc'], ob['lines'][:3]), {'events': case_events[-40:], 'step': step, 'tier': tier, 'full_events': full})
            return False
        if ev.get('enters') or ev.get('teardown_first'):
            ctx.count('other_libwayland_functions_entered', len(ev.get('enters') or ()) + (1 if ev.get('teardown_first') else 0))
        case_events.append([ev['type'], ev['slot'], ev['thread']] + ([ev['rec']['iface'], ev['rec']['name']] if ev['type'] == 'msg' else [ev['what']]))
        case = {'events': case_events[-40:], 'step': step, 'tier': tier, 'full_events': full}
        lines = [l for l in ob['lines'] if not l.startswith('Warning: Got message')]
        items = [outline.parse_line(l) for l in lines]
        if ev['type'] == 'msg':
            rec = ev['rec']
            if ob['exc'] is not None:
                ctx.violation('stop-exception', '[tier %s] message %s.%s on address slot %d (thread %d): %s escaped stop()' % (
                    tier, rec['iface'], rec['name'], ev['slot'], ev['thread'], ob['exc']), case)
                return False
            if ob['stop']:
                ctx.violation('unexpected-halt', '[tier %s] no breakpoint matcher is set but the program was halted at %s.%s' % (tier, rec['iface'], rec['name']), case)
                return False
            notices = [i for i in items if i['kind'] == 'notice']
            msgs = [i for i in items if i['kind'] == 'msg']
            if ev['opened_now']:
                if len(notices) != 1 or notices[0]['what'] != 'New' or notices[0]['conn'] != ev['name'] or notices[0]['role'] != ev['role']:
                    ctx.violation('open-notice', '[tier %s] first message on address slot %d: expected `New %s connection %s`, got %r' % (
                        tier, ev['slot'], ev['role'], ev['name'], lines[:3]), case)
                    return False
            elif notices:
                ctx.violation('extra-notice', '[tier %s] unexpected %r' % (tier, notices[0]['text']), case)
                return False
            if len(msgs) != 1:
                ctx.violation('message-lost', '[tier %s] %s.%s on connection %s produced %r' % (tier, rec['iface'], rec['name'], ev['name'], lines[:3]), case)
                return False
            exp = history.expected_text(rec, ev['side'], ev['name'])
            if any(a['k'] == 'a' for a in rec['args']):
                ok = msgs[0]['conn'] == ev['name'] and msgs[0]['name'] == rec['name'] and [msgs[0]['target']['type'], msgs[0]['target']['id'], msgs[0]['target']['gen']] == \
                    [rec['gt']['target'][0], rec['gt']['target'][1], history.letters(rec['gt']['target'][2])]
                prob = None if ok else 'header differs'
            else:
                prob, _, _ = streams.compare_line(msgs[0]['text'], exp, [a['v'] / 256.0 for a in rec['args'] if a['k'] == 'f'])
            if prob:
                ctx.violation('wrong-line', '[tier %s] connection %s (address slot %d): expected %r, shown %r' % (tier, ev['name'], ev['slot'], exp, msgs[0]['text'][:250]), case)
                return False
            if ev['thread'] != 1:
                ctx.count('messages_on_other_threads')
        else:
            ctx.count('destroy_' + ev['what'].replace('-', '_'))
            if ob['exc'] is not None:
                ctx.violation('destroy-exception-' + ev['what'], '[tier %s] wl_connection_destroy of a %s connection: %s escaped stop() (under real gdb this also halts the program)' % (
                    tier, ev['what'], ob['exc']), case)
                return False
            if ob['stop']:
                ctx.violation('unexpected-halt', '[tier %s] wl_connection_destroy of a %s connection halted the program' % (tier, ev['what']), case)
                return False
            if ev['key'] is not None:
                if len(items) != 1 or items[0]['kind'] != 'notice' or items[0]['what'] != 'Closed' or items[0]['conn'] != ev['name']:
                    ctx.violation('close-notice', '[tier %s] destroy of connection %s: got %r' % (tier, ev['name'], lines[:3]), case)
                    return False
            elif lines:
                ctx.violation('extra-output', '[tier %s] destroy of a %s connection printed %r' % (tier, ev['what'], lines[:3]), case)
                return False
    if len(obs) > len(events) and obs[-1]['exc']:
        ctx.violation('inferior-stuck', '[tier %s] %s' % (tier, obs[-1]['exc']), {'events': case_events[-40:], 'tier': tier})
        return False
    if conns is not None:
        open_keys = set()
        want = []
        for m in model:
            want.append([m['name'], None, m['pos']])
        state = {}
        for ev in events:
            if ev['type'] == 'msg' and ev['opened_now']:
                state[ev['key']] = True
            elif ev['type'] == 'destroy' and ev['key'] is not None:
                state[ev['key']] = False
        started = [m for m in model if m['key'] in state]
        want = [(m['name'], state[m['key']], m['pos']) for m in started]
        if conns != want:
            ctx.violation('connection-list', '[tier %s] connections %r, model %r' % (tier, conns, want), {'events': case_events[-40:], 'tier': tier})
            return False
    return True


OBJ_REF = re.compile(r'(unresolved |new )?([A-Za-z_][A-Za-z_0-9]*|\?\?\?)@(\d+)([a-z]*|\?)')


def object_refs(text):
    """the object references of a displayed line, strings blanked: [(marker, type, id, generation)]"""
    return OBJ_REF.findall(re.sub(r"'(?:[^'\\]|\\.)*'", "''", text))


def judge_objects(ctx, events, obs, tier):
    """C03's view of the same executions: which object every displayed reference names (type, id, generation, resolved or not, and
    the `destroyed` annotation of a delete_id) - nothing about notices, connection letters, argument names or values"""
    full = [dict(e, rec=(None if e.get('rec') is None else {k: v for k, v in e['rec'].items()})) for e in events]
    for step, (ev, ob) in enumerate(zip(events, obs)):
        if ev['type'] != 'msg':
            continue
        ctx.ev()
        lines = [l for l in ob['lines'] if not l.startswith('Warning: Got message')]
        msgs = [i for i in (outline.parse_line(l) for l in lines) if i['kind'] == 'msg']
        if len(msgs) != 1 or ob['exc'] is not None:
            ctx.count('gdb_mode_events_without_exactly_one_line')
            continue
        rec = ev['rec']
        exp = history.expected_text(rec, ev['side'], ev['name'])
        want, got = object_refs(exp), object_refs(msgs[0]['text'])
        if any(a['k'] == 'a' for a in rec['args']):
            want, got = want[:1], got[:1]
        ctx.count('gdb_mode_object_references', len(want))
        if want != got:
            ctx.violation('gdb-object-refs', '[tier %s] %s.%s on address slot %d: the line refers to %r, the history says %r: %r' % (
                tier, rec['iface'], rec['name'], ev['slot'], got, want, msgs[0]['text'][:250]), {'step': step, 'tier': tier, 'full_events': full, 'objects_only': True})
            return False
    return True


def run_one(ctx, rng, cands, spec, tier='A', objects_only=False):
    events, model = gen_sequence(rng, cands, spec)
    try:
        obs, conns = execute_shim(events, rng) if tier == 'A' else execute_gdb(events, rng)
    except Exception as e:
        ctx.inconc('tier %s execution failed: %s: %r' % (tier, type(e).__name__, e))
        return
    ok = judge_objects(ctx, events, obs, tier) if objects_only else judge(ctx, events, model, obs, conns, tier)
    kinds = [('m%d' % e['slot'] + ('!' if e['opened_now'] else '')) if e['type'] == 'msg' else 'd%d:%s' % (e['slot'], e['what']) for e in events]
    ctx.count('sequences' if tier == 'A' else 'tierb_sequences')
    reuse = sum(1 for e in events if e['type'] == 'msg' and e['opened_now'] and e['reuse_of'] is not None)
    ctx.count('address_reuses', reuse)
    for a, b in zip(kinds, kinds[1:]):
        ctx.setadd('transitions', (a[0] + (a.split(':')[1] if ':' in a else ('!' if a.endswith('!') else ''))) + '>' + (b[0] + (b.split(':')[1] if ':' in b else ('!' if b.endswith('!') else ''))))
    if any(e['type'] == 'destroy' for e in events) and reuse:
        ctx.sig([tier, h64(kinds)])
    if len(ctx.samples) < 2:
        ctx.sample({'tier': tier, 'event_kinds_head': kinds[:40]})


def run(ctx, spec):
    env.setup(spec)
    cands = wlxml.shipped(env.REPO)
    if spec.get('mode') == 'tierb':
        from .. import gdbreal
        if not gdbreal.available():
            ctx.count('tierb_skipped_no_gdb_or_inferior')
            return
    for i in range(spec['n']):
        run_one(ctx, ctx.rng, cands, spec, 'B' if spec.get('mode') == 'tierb' else 'A')
        if ctx.out_of_time():
            break


def finalize(m):
    c = m['counters']
    out = []
    for k in ('destroy_known', 'destroy_never_seen', 'destroy_already_closed', 'address_reuses', 'messages_on_other_threads'):
        if c.get(k, 0) == 0:
            out.append('event class never exercised: ' + k)
    return out


def replay(ctx, case):
    env.setup({'gdb_shim': True})
    if case.get('full_events'):
        events = case['full_events']
        obs, conns = execute_shim(events, ctx.rng) if case.get('tier', 'A') == 'A' else execute_gdb(events, ctx.rng)
        ok = judge_objects(ctx, events, obs, case.get('tier', 'A')) if case.get('objects_only') else judge(ctx, events, None, obs, None, case.get('tier', 'A'))
        print('replayed %d events on tier %s: %s' % (len(events), case.get('tier', 'A'), 'no difference from the model' if ok else 'VIOLATION reproduced'))
        return
    for e in case.get('events', []):
        print('  ', e)
