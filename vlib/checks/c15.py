"""C15 - GDB mode follows libwayland's connections as they come and go.
History + model: sequences of libwayland events - messages on one of several wl_connection addresses from one of several
threads (materialised closures, real extract + plugin code on the gdb shim), wl_connection_destroy of known / already
closed / never-seen addresses, address reuse - against a connection-manager model: first message on an address opens a
connection (notice + next name), destroy closes it, a later message on the same address is a NEW connection with a new
name and a fresh object table (its simulated history starts again at wl_display@1a / @2a ...), every line shown equals
the ground truth of its own connection's history, and no exception escapes any breakpoint's stop()."""
from .. import env, gdbsim, wlxml, history, outline, streams
from ..runner import h64

PROPERTY = 'C15'
RULE = ('event sequences of up to 300 events over <= 4 addresses and 3 threads: messages (each connection follows its own simulated, well-formed '
        'history, client or server side), destroy of a known / closed / never-seen address, reuse of an address by a new connection. '
        'distinct = hash of the event-kind sequence; non-trivial = sequence with at least one destroy and one address reuse')
ASSUMPTIONS = ['the gdb shim run loop calls stop() of the breakpoints set on the function an event occurs in, as gdb does',
               'time columns are wall-clock in GDB mode and are ignored', 'lines with array arguments are compared up to the array contents']
REQUIRED = ['backends/gdb_plugin/plugin.py:Plugin.process_message', 'backends/gdb_plugin/plugin.py:Plugin.close_connection',
            'backends/gdb_plugin/plugin.py:WlConnectionDestroyBreakpoint.stop', 'backends/gdb_plugin/plugin.py:WlClosureCallBreakpoint.stop',
            'backends/gdb_plugin/extract.py:connection_id_of']


def plan(tier, seed):
    if tier == 'quick':
        return [{'n': 12, 'gdb_shim': True, 'len': [20, 150]} for _ in range(16)]
    return [{'n': 300, 'gdb_shim': True, 'len': [20, 300]} for _ in range(64)]


def role_name(first_rec, side):
    if first_rec['name'] == 'get_registry':
        sent = first_rec['send_c'] if side == 'client' else not first_rec['send_c']
        return 'client' if sent else 'server'
    return 'unknown type'


def run_one(ctx, rng, cands, spec):
    gs = gdbsim.GdbSession()
    g = gs.gdb
    n_addr = rng.randint(1, 4)
    slots = [None] * n_addr          # per address slot: current logical connection key or None
    addr_of_slot = [None] * n_addr   # address once allocated
    ever_closed_addr = []
    model = []                       # logical connections: dict(name, open, sim, pos, side, slot)
    kinds = []
    length = rng.randint(*spec['len'])
    reuse = destroys = 0
    case_events = []
    for step in range(length):
        r = rng.random()
        slot = rng.randrange(n_addr)
        thread = rng.choice([1, 1, 1, 2, 3])
        n0, x0 = gs.mark()
        if r < 0.78:
            # ---- a message -----------------------------------------------------------------------------------------
            key = slots[slot]
            opened_now = False
            if key is None:
                side = rng.choice(['client', 'server'])
                sim = history.generate(rng, cands, rng.randint(8, 60), {'first': rng.choice(['get_registry', 'get_registry', 'sync', None]),
                                                                        'hot': rng.choice([0.1, 0.4])})
                key = len(model)
                if addr_of_slot[slot] is None:
                    c = gs.new_connection(key, side)
                    addr_of_slot[slot] = c['addr']
                else:
                    old = [m for m in model if m['slot'] == slot][-1]
                    gs.reuse_address(key, old['key'], side)
                    reuse += 1
                model.append({'key': key, 'name': streams.conn_name(len(model)), 'open': True, 'sim': sim, 'pos': 0, 'side': side, 'slot': slot})
                slots[slot] = key
                opened_now = True
            m = model[key]
            if m['pos'] >= len(m['sim'].hist):
                continue
            rec = m['sim'].hist[m['pos']]
            m['pos'] += 1
            ev = gs.event_for(key, rec, rng, thread)
            kinds.append('m%d' % slot + ('!' if opened_now else ''))
            case_events.append(['message', slot, thread, rec['iface'], rec['name']])
            stop, exc = gs.deliver(ev)
            ctx.ev()
            case = {'events': case_events[-40:], 'step': step}
            if exc is not None:
                ctx.violation('stop-exception', 'message %s.%s on address slot %d (thread %d): %s: %r escaped stop()' % (
                    rec['iface'], rec['name'], slot, thread, type(exc).__name__, exc), case)
                return
            if stop:
                ctx.violation('unexpected-halt', 'no breakpoint matcher is set but stop() returned True at %s.%s' % (rec['iface'], rec['name']), case)
                return
            lines = gs.written_since(n0)
            items = [outline.parse_line(l) for l in lines]
            notices = [i for i in items if i['kind'] == 'notice']
            msgs = [i for i in items if i['kind'] == 'msg']
            if opened_now:
                role = role_name(rec, m['side'])
                if len(notices) != 1 or notices[0]['what'] != 'New' or notices[0]['conn'] != m['name'] or notices[0]['role'] != role:
                    ctx.violation('open-notice', 'first message on address slot %d: expected `New %s connection %s`, got %r' % (slot, role, m['name'], lines[:3]), case)
                    return
            elif notices:
                ctx.violation('extra-notice', 'unexpected %r' % notices[0]['text'], case)
                return
            if len(msgs) != 1:
                ctx.violation('message-lost', '%s.%s on connection %s produced %r' % (rec['iface'], rec['name'], m['name'], lines[:3]), case)
                return
            exp = history.expected_text(rec, m['side'], m['name'])
            if any(a['k'] == 'a' for a in rec['args']):
                ok = msgs[0]['conn'] == m['name'] and msgs[0]['name'] == rec['name'] and [msgs[0]['target']['type'], msgs[0]['target']['id'], msgs[0]['target']['gen']] == \
                    [rec['gt']['target'][0], rec['gt']['target'][1], history.letters(rec['gt']['target'][2])]
                prob = None if ok else 'header differs'
            else:
                prob, _, _ = streams.compare_line(msgs[0]['text'], exp, [a['v'] / 256.0 for a in rec['args'] if a['k'] == 'f'])
            if prob:
                ctx.violation('wrong-line', 'connection %s (address slot %d): expected %r, shown %r' % (m['name'], slot, exp, msgs[0]['text'][:250]), case)
                return
            if thread != 1:
                ctx.count('messages_on_other_threads')
        else:
            # ---- wl_connection_destroy ---------------------------------------------------------------------------------
            destroys += 1
            key = slots[slot]
            if addr_of_slot[slot] is None:
                addr = gs.world.connection()      # a connection that never carried a message
                what = 'never-seen'
            else:
                addr = addr_of_slot[slot]
                what = 'known' if key is not None else 'already-closed'
            kinds.append('d%d:%s' % (slot, what))
            case_events.append(['destroy', slot, thread, what])
            stop, exc = gs.sim.deliver({'kind': 'destroy', 'connection': addr, 'thread': thread})
            ctx.ev()
            ctx.count('destroy_' + what.replace('-', '_'))
            case = {'events': case_events[-40:], 'step': step}
            if exc is not None:
                ctx.violation('destroy-exception-' + what, 'wl_connection_destroy of a %s connection: %s: %r escaped stop() (under real gdb this also halts the program)' % (
                    what, type(exc).__name__, exc), case)
                return
            if stop:
                ctx.violation('unexpected-halt', 'wl_connection_destroy halted the program', case)
                return
            lines = gs.written_since(n0)
            notices = [outline.parse_line(l) for l in lines]
            if key is not None:
                m = model[key]
                if len(notices) != 1 or notices[0]['kind'] != 'notice' or notices[0]['what'] != 'Closed' or notices[0]['conn'] != m['name']:
                    ctx.violation('close-notice', 'destroy of connection %s: got %r' % (m['name'], lines[:3]), case)
                    return
                m['open'] = False
                slots[slot] = None
            elif lines:
                ctx.violation('extra-output', 'destroy of a %s connection printed %r' % (what, lines[:3]), case)
                return
        # manager-level agreement after every event
        conns = gs.cm.connections()
        if [c.name() for c in conns] != [m['name'] for m in model] or [c.is_open() for c in conns] != [m['open'] for m in model]:
            ctx.violation('connection-list', 'connections %r, model %r' % ([(c.name(), c.is_open()) for c in conns], [(m['name'], m['open']) for m in model]),
                          {'events': case_events[-40:], 'step': step})
            return
        for c, m in zip(conns, model):
            if len(c.messages()) != m['pos']:
                ctx.violation('message-count', 'connection %s has %d messages, %d were sent to it' % (m['name'], len(c.messages()), m['pos']), {'events': case_events[-40:]})
                return
    ctx.count('sequences')
    ctx.count('address_reuses', reuse)
    for a, b in zip(kinds, kinds[1:]):
        ctx.setadd('transitions', a.split(':')[-1][:1] + a[-1:] + '>' + b.split(':')[-1][:1] + b[-1:] if False else (a[0] + (a.split(':')[1] if ':' in a else ('!' if a.endswith('!') else '')) + '>' + b[0] + (b.split(':')[1] if ':' in b else ('!' if b.endswith('!') else ''))))
    if destroys and reuse:
        ctx.sig(h64(kinds))
    if len(ctx.samples) < 2:
        ctx.sample({'event_kinds_head': kinds[:40]})


def run(ctx, spec):
    env.setup(spec)
    cands = wlxml.shipped(env.REPO)
    for i in range(spec['n']):
        run_one(ctx, ctx.rng, cands, spec)
        if ctx.out_of_time():
            break


def finalize(m):
    c = m['counters']
    out = []
    for k in ('destroy_known', 'destroy_never_seen', 'destroy_already_closed', 'address_reuses', 'messages_on_other_threads'):
        if c.get(k, 0) == 0:
            out.append('event class never exercised: ' + k)
    return out


def replay(ctx, case):
    print('C15 sequences are generated with simulated histories; re-run the check with the same seed to reproduce. Tail of the event sequence:')
    for e in case.get('events', []):
        print('  ', e)
