"""C14 - displayed object and connection labels are unambiguous and work as matchers.
(1) letter functions: EXHAUSTIVE bijection / shortlex order / round trip for all suffixes up to four letters, both case
    settings, plus samples up to 10^12.
(2) label paste-back: in generated multi-connection histories (deep id reuse, server-range ids) every displayed
    `id+letters` label and every connection name is given back to `list` as a matcher (`B: 7c`, `B:`) and the lines
    listed must be exactly the messages on / mentioning / creating / destroying that incarnation (ground truth)."""
import re

from .. import wlxml, streams, objcheck, env, outline, history
from ..runner import h64

PROPERTY = 'C14'
RULE = ('letters: all n < 475254 (= every suffix of 1..4 letters) in both cases + 20000 samples < 10^12; paste-back: streams of '
        '2..4 connections, up to 60 object labels per stream (all objects of reused ids first) and every connection name, plain '
        'and coloured. distinct = (stream hash, label); non-trivial = label of an id that has more than one incarnation')
ASSUMPTIONS = ['simulator ground truth for the on / mention / create / destroy sets',
               'the creating message of an implicitly replaced server-range object is not counted as destroying the old one']
REQUIRED = ['core/letter_id_generator.py:number_to_letter_id', 'core/letter_id_generator.py:letter_id_to_number',
            'core/matcher.py:_parse_obj_id_matcher', 'core/matcher.py:ObjectIdMatcher.matches', 'core/matcher.py:ConnectionMatcher.matches',
            'frontends/tui/controller.py:Controller.list_command']
LIMIT4 = 26 + 26**2 + 26**3 + 26**4


def EXHAUSTIVE(tier):
    return True


def plan(tier, seed):
    n = 16
    specs = [{'mode': 'letters', 'lo': LIMIT4 * i // 4, 'hi': LIMIT4 * (i + 1) // 4} for i in range(4)]
    per = 8 if tier == 'quick' else 80
    specs += [{'mode': 'paste', 'n': per} for _ in range(11 if tier == 'quick' else 56)]
    specs += [{'mode': 'api', 'n': 60 if tier == 'quick' else 1500} for _ in range(1 if tier == 'quick' else 4)]
    return specs


def shortlex_key(s):
    return (len(s), s)


def run_letters(ctx, spec):
    env.setup()
    from core.letter_id_generator import number_to_letter_id, letter_id_to_number, LetterIdGenerator
    lo, hi = spec['lo'], spec['hi']
    prev = {False: None, True: None}
    if lo > 0:
        for caps in (False, True):
            prev[caps] = number_to_letter_id(lo - 1, caps)
    seen = set()
    for n in range(lo, hi):
        for caps in (False, True):
            s = number_to_letter_id(n, caps)
            if not re.fullmatch(r'[A-Z]+' if caps else r'[a-z]+', s):
                ctx.violation('letters-alphabet', 'number_to_letter_id(%d, %r) = %r' % (n, caps, s), {'n': n, 'caps': caps})
                return
            if letter_id_to_number(s) != n:
                ctx.violation('letters-roundtrip', 'letter_id_to_number(%r) = %d, expected %d' % (s, letter_id_to_number(s), n), {'n': n, 'caps': caps})
                return
            p = prev[caps]
            if p is not None:
                # next in shortlex order without a gap: successor(p) == s
                if successor(p) != s:
                    ctx.violation('letters-order', 'after %r comes %r (expected %r) at n=%d' % (p, s, successor(p), n), {'n': n, 'caps': caps})
                    return
            prev[caps] = s
        seen.add(s.lower())
        ctx.ev()
    if len(seen) != hi - lo:
        ctx.violation('letters-repeat', 'only %d distinct suffixes for %d numbers' % (len(seen), hi - lo), {'lo': lo, 'hi': hi})
    ctx.sig(['letters', lo, hi])
    ctx.sig(['letters-distinct', len(seen)])
    ctx.count('letters_checked', hi - lo)
    if lo == 0:
        if number_to_letter_id(0, False) != 'a' or number_to_letter_id(25, False) != 'z' or number_to_letter_id(26, False) != 'aa':
            ctx.violation('letters-start', 'a/z/aa: %r %r %r' % tuple(number_to_letter_id(i, False) for i in (0, 25, 26)), {'n': 0})
        g = LetterIdGenerator()
        names = [g.next() for _ in range(800)]
        if names[:3] != ['A', 'B', 'C'] or names[26] != 'AA' or len(set(names)) != 800:
            ctx.violation('letters-generator', 'LetterIdGenerator gives %r...' % names[:30], {'gen': True})
        for _ in range(20000):
            n = ctx.rng.randint(LIMIT4, 10**12)
            for caps in (False, True):
                s = number_to_letter_id(n, caps)
                if letter_id_to_number(s) != n or number_to_letter_id(n + 1, caps) != successor(s):
                    ctx.violation('letters-sample', 'n=%d -> %r -> %d' % (n, s, letter_id_to_number(s)), {'n': n, 'caps': caps})
                    return
            ctx.ev()
        ctx.sample({'n': 475253, 'suffix': number_to_letter_id(475253, False), 'next': number_to_letter_id(475254, False)})


def successor(s):
    a = 'A' if s[0].isupper() else 'a'
    z = chr(ord(a) + 25)
    cs = list(s)
    i = len(cs) - 1
    while i >= 0 and cs[i] == z:
        cs[i] = a
        i -= 1
    if i < 0:
        return a + ''.join(cs)
    cs[i] = chr(ord(cs[i]) + 1)
    return ''.join(cs)


def listed(session, cmd):
    """run a list command, return (message line texts without time, count item or None, all out lines)"""
    n0 = len(session.events)
    session.command(cmd)
    outs = [outline.strip_sgr(p) for k, p in session.events[n0:] if k == 'out']
    errs = [outline.strip_sgr(p) for k, p in session.events[n0:] if k == 'err']
    items = [outline.parse_line(o) for o in outs]
    msgs = [it['text'].strip().split(' ', 1)[1] for it in items if it['kind'] == 'msg']
    tail = [it for it in items if it['kind'] in ('count', 'none_of', 'no_messages')]
    return msgs, (tail[0] if tail else None), outs, errs


def norm(t):
    return re.sub(r' after -?\d+\.\d{4}s', ' after LIFE', t)


def run_paste(ctx, spec):
    env.setup()
    cands = wlxml.shipped(env.REPO)
    rng = ctx.rng
    for it in range(spec['n'] + (1 if spec.get('shard') == 4 else 0)):
        k = rng.randint(2, 4)
        deep = it == spec['n']
        if deep:
            # one id through > 700 incarnations: labels with every letter, z, az, za, zz ...
            st = streams.build(rng, cands, k=1, n_each=13400 if ctx.tier == 'quick' else 100500, tagged=True,
                               opts={'hot': 1.0, 'reuse_bias': 1.0, 'prompt_delete': 1.0, 'first': 'get_registry', 'big_gaps': 0.0})
        else:
            st = streams.build(rng, cands, k=k, n_each=(40, 220), tagged=True, opts={'hot': rng.choice([0.3, 0.6, 0.08]), 'tie_prefix': rng.choice([0, 0, 8, 30]),
                                                                                                      'backsteps': rng.choice([0, 0, 0.05, 0.2]), 'wrap': rng.random() < 0.15},
                               t0=(2 ** 32 - rng.randint(1, 10 ** 6)) if rng.random() < 0.1 else None)
        s, probs = objcheck.run_stream(ctx, st, want=('C02', 'C03', 'C04'))
        if probs:
            objcheck.report(ctx, st, probs)      # an attribution problem would make the paste-back meaningless
            continue
        # floats in expectation
        exp_line = {}
        for idx, e in enumerate(st['entries']):
            t = history.expected_text(e['rec'], e['side'], st['names'][e['ci']])
            fl = streams.exp_floats(e['rec'], st['dialect'])
            exp_line[idx] = (t, fl)
        # every connection name
        for ci, name in st['names'].items():
            want = [i for i, e in enumerate(st['entries']) if e['ci'] == ci]
            for cmd in ('list %s:' % name, 'list \x1b[1;37m%s\x1b[0m:' % name):
                check_list(ctx, st, s, cmd, want, exp_line)
        # object labels: labels shown in the output, reused ids first
        labels = {}
        for idx, e in enumerate(st['entries']):
            gt = e['rec']['gt']
            keys = [tuple(gt['target'][1:])] + [tuple(o[3:5]) for o in gt['objs']] + ([tuple(gt['destroyed'][1:])] if gt['destroyed'] else [])
            for key in keys:
                labels.setdefault((e['ci'],) + key, []).append(idx)
        depth = {}
        for (ci, oid, gen) in labels:
            depth[(ci, oid)] = max(depth.get((ci, oid), 0), gen + 1)
        order = sorted(labels, key=lambda x: (-depth[(x[0], x[1])], rng.random()))
        if deep:
            zs = [x for x in labels if 'z' in history.letters(x[2])]
            deepest = sorted(labels, key=lambda x: -x[2])[:12]      # the latest incarnations: labels like 5fen
            order = deepest + rng.sample(zs, min(45, len(zs))) + order[:15]
        for (ci, oid, gen) in order[:60]:
            name = st['names'][ci]
            lab = '%d%s' % (oid, history.letters(gen))
            want = sorted(set(labels[(ci, oid, gen)]))
            cmd = rng.choice(['list %s: %s', 'list %s:%s', 'list \x1b[1;37m%s\x1b[0m: \x1b[36m%s\x1b[0m', 'list %s: @%s']) % (name, lab)
            check_list(ctx, st, s, cmd, want, exp_line)
            if depth[(ci, oid)] > 1:
                ctx.sig([h64([e['line'] for e in st['entries'][:50]]), ci, oid, gen])
        if not deep:
            accumulate(ctx, rng, st, s, labels, order)
        # two distinct incarnations on one connection never share a label: by construction of the comparison above the
        # displayed labels equal the model's, which are distinct; additionally assert it on what was displayed
        shown = {}
        for (k2, p) in s.events:
            if k2 != 'out':
                continue
            for m in re.finditer(r'(\w+): .*', outline.strip_sgr(p)):
                pass
        ctx.count('streams')
        if len(ctx.samples) < 2 and order:
            ci, oid, gen = order[0]
            ctx.sample({'command': 'list %s: %d%s' % (st['names'][ci], oid, history.letters(gen)), 'expected_line_indices': sorted(set(labels[order[0]]))[:20]})
        if ctx.out_of_time():
            break


def accumulate(ctx, rng, st, s, labels, order):
    """displayed labels given as alternatives / exclusions of `filter` and `breakpoint`, several commands in a row: the
    accumulated matcher selects (some alternative's messages, or everything while there is none) minus every exclusion's"""
    msgs = list(s.ctl.all_messages)
    if len(msgs) != len(st['entries']) or not order:
        ctx.count('accumulate_skipped')
        return
    by_conn = {}
    for i, e in enumerate(st['entries']):
        by_conn.setdefault(e['ci'], set()).add(i)
    state = {'filter': ([], []), 'breakpoint': ([], [])}
    cmds = []
    # labels that stand for many lines overlap each other: those are the ones whose combination can be told apart
    busy = sorted(labels, key=lambda x: -len(labels[x]))[:12]
    focus = rng.choice(list(st['names']))
    for step in range(rng.randint(3, 7)):
        kind = rng.choice(['filter', 'breakpoint'])
        pos, neg = [], []
        texts = []
        for _ in range(rng.choice([1, 1, 2])):
            r0 = rng.random()
            if r0 < 0.25:
                # an ordinary dotted pattern typed in between, as in a real session
                # (`new` and `destroyed` also name pseudo-messages: not used here, C05 has them)
                e = rng.choice([x for x in st['entries'] if x['rec']['name'] not in ('new', 'destroyed')])
                T, N = e['rec']['gt']['target'][0], e['rec']['name']
                text, sel = '%s.%s' % (T, N), set(i for i, x in enumerate(st['entries']) if x['rec']['name'] == N and x['rec']['gt']['target'][0] == T)
            elif r0 < 0.4:
                ci = focus if rng.random() < 0.6 else rng.choice(list(st['names']))
                text, sel = '%s:' % st['names'][ci], by_conn[ci]
            else:
                ci, oid, gen = rng.choice(busy if rng.random() < 0.5 else order[:80])
                text, sel = '%s: %d%s' % (st['names'][ci], oid, history.letters(gen)), set(labels[(ci, oid, gen)])
            texts.append((text, sel))
        r = rng.random()
        if r < 0.35:
            arg = '! ' + ', '.join(t for t, _ in texts)
            neg = [x for _, x in texts]
        elif r < 0.5 and len(texts) > 1:
            arg = texts[0][0] + ' ! ' + texts[1][0]
            pos, neg = [texts[0][1]], [texts[1][1]]
        else:
            arg = ', '.join(t for t, _ in texts)
            pos = [x for _, x in texts]
        cmd = '%s %s' % (kind, arg)
        cmds.append(cmd)
        n0 = len(s.events)
        s.command(cmd)
        errs = [outline.strip_sgr(p) for k, p in s.events[n0:] if k == 'err']
        case = objcheck.case_of(st)
        case['commands'] = list(cmds)
        ctx.ev()
        if errs:
            ctx.violation('label-rejected', '%r -> %r' % (cmd, errs[:2]), case)
            return
        state[kind] = (state[kind][0] + pos, state[kind][1] + neg)
        for which, m in (('filter', s.ctl.display_matcher), ('breakpoint', s.ctl.stop_matcher)):
            P, N = state[which]
            if not P and not N:
                continue
            for i, x in enumerate(msgs):
                want = (not P or any(i in q for q in P)) and not any(i in q for q in N)
                got = bool(m.matches(x))
                if want != got:
                    ctx.violation('label-accumulation', 'after %r the %s matcher %s line %d %r; the labels given stand for lines %s minus %s' % (
                        cmds, which, 'selects' if got else 'does not select', i, st['entries'][i]['line'][:100],
                        'any' if not P else sorted(set().union(*P))[:12], sorted(set().union(*N))[:12] if N else '{}'), case)
                    return
        ctx.count('accumulation_steps')


def check_list(ctx, st, s, cmd, want_idx, exp_line):
    msgs, tail, outs, errs = listed(s, cmd)
    ctx.ev()
    ctx.count('list_queries')
    case = objcheck.case_of(st)
    case['command'] = cmd
    if errs:
        ctx.violation('label-rejected', '%r -> %r' % (cmd, errs[:2]), case)
        return
    if len(msgs) != len(want_idx):
        got_set = msgs[:3]
        ctx.violation('label-selection', '%r listed %d messages, ground truth has %d (lines %r); first listed %r' % (
            cmd, len(msgs), len(want_idx), want_idx[:8], got_set), case)
        return
    for m, idx in zip(msgs, want_idx):
        t, fl = exp_line[idx]
        prob, _, _ = streams.compare_line('0.0000 ' + m, t, fl)
        if prob:
            ctx.violation('label-selection', '%r listed %r where ground truth has line %d %r' % (cmd, m, idx, t), case)
            return
    total = len(st['entries'])
    if want_idx:
        if not tail or tail['kind'] != 'count' or tail['matched'] != len(want_idx) or tail['matched'] + tail['didnt'] + tail['not_checked'] != total:
            ctx.violation('label-counts', '%r count line %r, expected %d matched of %d' % (cmd, tail and tail['text'], len(want_idx), total), case)


def run_api(ctx, spec):
    """connections that come and go (as in GDB mode): names never repeat, and `list NAME:` selects exactly that
    connection's messages"""
    env.setup()
    from ..session import Session
    from backends.libwayland_debug_output import parse
    rng = ctx.rng
    for it in range(spec['n']):
        s = Session()
        ids = ['c%d' % i for i in range(rng.randint(1, 4))]
        open_ = {}
        model = []      # [name, [expected bodies]]
        ops = []
        t = 0.0
        for step in range(rng.randint(2, 80)):
            cid = rng.choice(ids)
            r = rng.random()
            t += 0.001
            if cid not in open_ or r < 0.12:
                s.cm.open_connection(t, cid, rng.choice([True, False, None]))
                open_[cid] = len(model)
                model.append([streams.conn_name(len(model)), [], 2])
                ops.append(['open', cid])
            elif r < 0.25:
                s.cm.close_connection(t, cid)
                del open_[cid]
                ops.append(['close', cid])
            else:
                m = model[open_[cid]]
                _, msg = parse.message('[%.3f]  -> wl_display@1.sync(new id wl_callback@%d)' % (t * 1000, m[2]))
                s.cm.message(cid, msg)
                m[1].append('%s: → wl_display@1a.sync(callback=new wl_callback@%da)' % (m[0], m[2]))
                m[2] += 1
                ops.append(['message', cid])
        names = [c.name() for c in s.cm.connections()]
        case = {'api_ops': ops}
        ctx.ev()
        ctx.sig(['api', h64(ops)])
        if len(set(names)) != len(names) or names != [m[0] for m in model]:
            ctx.violation('connection-names', 'names %r, expected %r' % (names, [m[0] for m in model]), case)
            continue
        for name, bodies, _ in model:
            msgs, tail, outs, errs = listed(s, 'list %s:' % name)
            ctx.count('list_queries')
            if msgs != bodies:
                ctx.violation('connection-label-selection', '`list %s:` listed %r, that connection got %r' % (name, msgs[:4], bodies[:4]), case)
                break


def run(ctx, spec):
    if spec['mode'] == 'letters':
        run_letters(ctx, spec)
    elif spec['mode'] == 'api':
        run_api(ctx, spec)
        if spec.get('shard') is not None and not getattr(run, '_deep_done', False):
            run._deep_done = True
            objcheck.deep_table(ctx, 70000 if ctx.tier == 'quick' else 1100000)
    else:
        run_paste(ctx, spec)


def replay(ctx, case):
    env.setup()
    if 'deep_table' in case:
        return objcheck.deep_table(ctx, case['deep_table'])
    if 'api_ops' in case:
        from ..session import Session
        from backends.libwayland_debug_output import parse
        s = Session()
        nid = {}
        for op, cid in case['api_ops']:
            if op == 'open':
                s.cm.open_connection(0.0, cid, None)
                nid[cid] = 2
            elif op == 'close':
                s.cm.close_connection(0.0, cid)
            else:
                _, msg = parse.message('[1.000]  -> wl_display@1.sync(new id wl_callback@%d)' % nid[cid])
                nid[cid] += 1
                s.cm.message(cid, msg)
        names = [c.name() for c in s.cm.connections()]
        print('connection names:', names)
        if len(set(names)) != len(names):
            ctx.violation('connection-names', 'names repeat: %r' % names, case)
    elif 'lines' in case:
        from ..session import Session
        s = Session()
        s.feed([l + '\n' for l in case['lines']])
        if 'commands' in case:
            n0 = len(s.events)
            for c in case['commands']:
                s.command(c)
            print('\n'.join(outline.strip_sgr(p) for k, p in s.events[n0:] if k in ('cmd', 'out', 'err')))
            sel = {w: [i for i, x in enumerate(s.ctl.all_messages) if m.matches(x)] for w, m in (('filter', s.ctl.display_matcher), ('breakpoint', s.ctl.stop_matcher))}
            print('selected lines:', {w: v[:40] for w, v in sel.items()})
            return
        msgs, tail, outs, errs = listed(s, case['command'])
        print('\n'.join(outs + errs))
    else:
        run_letters(ctx, {'lo': 0, 'hi': 30000})
