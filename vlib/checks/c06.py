"""C06 - the live view shows exactly the messages matching the current filter.
Offline checker over the boundary event log (read / cmd / out events on a logical clock): for every arriving message,
its line is shown (once, before the next read, with the ground-truth text) iff the filter accumulated from -f and all
`filter` commands so far selects it (reference semantics) and it belongs to the selected connection; every message,
shown or not, is recorded (Connection.messages(), a final `list *`).  A wrapper on connection_got_new_message snapshots
the tool's own matcher verdict and selected connection at arrival time, so a report says whether the wiring or the
matcher is at fault."""
from .. import wlxml, streams, env, mgen, mref, joinref, outline, history
from ..session import Session
from ..runner import h64
from . import c05, c12

PROPERTY = 'C06'
RULE = ('2..4-connection streams; optional -f; 0..10 commands injected at random read points: filter (alternatives, exclusions, *, !, '
        'malformed), connection X|all|bogus, list (must not disturb); depth-1 matchers over the stream vocabulary. distinct = hash of '
        '(lines, -f, commands with positions); non-trivial = some message hidden and some shown')
ASSUMPTIONS = ['matcher semantics as in C05, accumulation as in C12 (only definite values compared)', 'ground truth text per line from the simulator']
REQUIRED = ['frontends/tui/controller.py:Controller.connection_got_new_message', 'core/connection_impl.py:ConnectionImpl.message',
            'frontends/tui/controller.py:Controller._show_message']


def plan(tier, seed):
    if tier == 'quick':
        return [{'n': 60, 'n_each': [25, 60]} for _ in range(16)]
    return [{'n': 420, 'n_each': [30, 120]} for _ in range(64)]


def install_snapshot():
    """isolating oracle: what the tool's own filter and selection said at arrival"""
    from frontends.tui.controller import Controller
    if getattr(Controller, '_verif_snap', False):
        return
    orig = Controller.connection_got_new_message
    log = []

    def wrapped(self, connection, message):
        try:
            v = bool(self.display_matcher.matches(message))
        except Exception:
            v = None
        log.append((id(message), v, self.current_connection.name() if self.current_connection is not None else None))
        return orig(self, connection, message)
    Controller.connection_got_new_message = wrapped
    Controller._verif_snap = True
    Controller._verif_log = log


def gen_script(rng, st, projs):
    g = mgen.Gen(rng, mgen.vocab_of(projs), depth=1)
    n = len(st['entries'])
    hooks = {}
    names = list(st['names'].values())
    for _ in range(rng.randint(0, 10)):
        pos = rng.randint(0, n)
        r = rng.random()
        if r < 0.55:
            text, ast = c12.gen_step(rng, g)
            cmd = (rng.choice(['filter', 'f', 'wlf']) + ' ' + text, 'filter', ast)
        elif r < 0.85:
            appids = [streams.app_id_of(e['rec']) for e in st['entries']]
            appids = [a for a in appids if a and ' ' not in a]
            arg = rng.choice(names + names + ['all', 'bogus', rng.choice(names).lower()] + appids[:6])
            if len(names) > 26 and rng.random() < 0.6:
                arg = rng.choice(names[26:])
            if appids and rng.random() < 0.3:
                arg = rng.choice(appids)
            # an app id that several connections have (two windows of one program): the first of them is meant
            by_app = {}
            for e in st['entries']:
                a = streams.app_id_of(e['rec'])
                if a and ' ' not in a and a.lower() not in [x.lower() for x in names]:
                    by_app.setdefault(a.lower(), set()).add(e['ci'])
            shared = sorted(a for a, cs in by_app.items() if len(cs) > 1)
            if shared and rng.random() < 0.5:
                arg = rng.choice(shared)
                pos = rng.randint(n // 2, n)
            cmd = (rng.choice(['connection', 'c', 'conn']) + ' ' + arg, 'connection', arg)
        else:
            cmd = (rng.choice(['list', 'list ~ 2', 'list ' + names[0] + ':', 'filter', 'connection', 'help', 'matcher wl_surface']), 'neutral', None)
        hooks.setdefault(pos, []).append(cmd)
    f_text, f_ast = (None, None)
    if rng.random() < 0.5:
        f_text, f_ast = c12.gen_step(rng, g)
        if f_ast is None or f_text in ('*', '!'):
            f_text, f_ast = (None, None)
    return hooks, f_text, f_ast


def run_one(ctx, rng, cands, spec):
    from .. import contracts
    contracts.install()
    install_snapshot()
    from frontends.tui.controller import Controller
    k = rng.randint(2, 4)
    many = rng.random() < 0.06
    if many:
        k = rng.randint(27, 31)          # connection names past Z (AA, AB, ...)
    st = streams.build(rng, cands, k=k, n_each=(3, 9) if many else tuple(spec['n_each']), tagged=True,
                       # (sometimes several windows of one or two programs: connections that share an app id)
                       opts={'titles': rng.choice([0.02, 0.1, 0.25])} if rng.random() < 0.8 else {'titles': 0.3, 'app_pool': ['org.example.Term', 'foot', 'Foot']})
    projs = [c05.project(e, st['names'][e['ci']], st['dialect']) for e in st['entries']]
    hooks, f_text, f_ast = gen_script(rng, st, projs)
    lines = [e['line'] for e in st['entries']]
    case = {'lines': lines, 'filter': f_text, 'hooks': {str(p): [c[0] for c in v] for p, v in hooks.items()}, 'expect': []}
    del Controller._verif_log[:]
    try:
        s = Session(filter_text=f_text)
    except RuntimeError as e:
        ctx.count('f_option_rejected')
        return
    s.feed([l + '\n' for l in lines], hooks={p: [c[0] for c in v] for p, v in hooks.items()})
    snap = {mid: (v, sel) for mid, v, sel in Controller._verif_log}
    # ---- walk the history -------------------------------------------------------------------------------
    state = joinref.from_matcher(f_ast) if f_ast is not None else ('const', True)
    selection = None
    opened = []
    app_ids = {}
    cmd_meta = {}
    for p, v in hooks.items():
        for c in v:
            cmd_meta.setdefault(c[0], []).append(c)
    pending_cmds = {p: list(v) for p, v in hooks.items()}
    ev = s.events
    i = 0
    n_shown = n_hidden = 0
    cur_read = None
    outs_for = {}
    for k2, p in ev:
        if k2 == 'read':
            cur_read = p
            outs_for[cur_read] = []
        elif k2 == 'eof':
            cur_read = 'eof'
        elif k2 == 'cmd':
            cur_read = None        # what a command prints belongs to the command, not to the line read before it
        elif k2 == 'out' and cur_read not in (None, 'eof'):
            outs_for[cur_read].append(p)
    msgs = list(s.ctl.all_messages)
    model_valid = True
    for idx in range(len(lines) + 1):
        for c in hooks.get(idx, []):
            if c[1] == 'filter':
                if c[2] is not None:
                    state = joinref.join(state, c[2])
            elif c[1] == 'connection':
                arg = c[2]
                if arg == 'all':
                    selection = None
                else:
                    hit = streams.select_connection(arg, opened, app_ids)
                    if hit:
                        selection = hit
        if idx == len(lines):
            break
        e = st['entries'][idx]
        name = st['names'][e['ci']]
        if name not in opened:
            opened.append(name)
        if streams.app_id_of(e['rec']):
            app_ids[name] = streams.app_id_of(e['rec'])
        lo, hi = joinref.selected(state, projs[idx])
        in_sel = selection is None or selection == name
        case['expect'].append([lo is True and in_sel, not (hi is False or not in_sel)])      # [must be shown, may be shown]
        shown = [o for o in outs_for.get(idx, []) if outline.parse_line(o)['kind'] == 'msg']
        ctx.ev()
        tool_says = snap.get(id(msgs[idx]), (None, None)) if idx < len(msgs) else (None, None)
        blame = 'tool matcher at arrival said %r, selected connection %r' % tool_says
        if len(shown) > 1:
            ctx.violation('shown-twice', 'line %d shown %d times' % (idx, len(shown)), dict(case, line_index=idx))
            return
        if shown:
            n_shown += 1
            exp = history.expected_text(e['rec'], e['side'], name)
            prob, _, _ = streams.compare_line(shown[0], exp, streams.exp_floats(e['rec'], st['dialect']))
            if prob:
                ctx.violation('shown-other-text', 'line %d shown as %r, expected %r' % (idx, shown[0][:200], exp), dict(case, line_index=idx))
                return
            if not in_sel:
                ctx.violation('shown-outside-selection', 'line %d of connection %s shown while connection %s is selected (%s)' % (idx, name, selection, blame), dict(case, line_index=idx))
                return
            if hi is False:
                ctx.violation('shown-not-matching', 'line %d %r shown although the filter %s rejects it (%s)' % (idx, lines[idx][:120], joinref.describe(state), blame), dict(case, line_index=idx))
                return
        else:
            n_hidden += 1
            if in_sel and lo is True:
                ctx.violation('hidden-matching', 'line %d %r not shown although the filter %s selects it and its connection is shown (%s)' % (
                    idx, lines[idx][:120], joinref.describe(state), blame), dict(case, line_index=idx))
                return
    # ---- recorded regardless -------------------------------------------------------------------------------
    for ci, name in st['names'].items():
        c = [x for x in s.cm.connections() if x.name() == name]
        want = sum(1 for e in st['entries'] if e['ci'] == ci)
        if not c or len(c[0].messages()) != want:
            ctx.violation('not-recorded', 'connection %s recorded %s messages, %d arrived' % (name, c and len(c[0].messages()), want), case)
            return
    s.command('connection all')
    n0 = len(s.events)
    s.command('list *')
    listed = [p for k2, p in s.events[n0:] if k2 == 'out' and outline.parse_line(p)['kind'] == 'msg']
    if len(listed) != len(lines):
        ctx.violation('not-recorded', '`list *` after the stream shows %d messages, %d arrived' % (len(listed), len(lines)), case)
        return
    for idx, (l, e) in enumerate(zip(listed, st['entries'])):
        prob, _, _ = streams.compare_line(l, history.expected_text(e['rec'], e['side'], st['names'][e['ci']]), streams.exp_floats(e['rec'], st['dialect']))
        if prob:
            ctx.violation('recorded-order', '`list *` item %d is %r' % (idx, l[:160]), dict(case, line_index=idx))
            return
    from .. import contracts
    for kind, msg in contracts.drain():
        ctx.violation(kind, msg, case)
    ctx.counters['contract_controller_invariant'] = contracts.COUNTS['controller_invariant']
    ctx.count('sessions')
    ctx.count('shown', n_shown)
    ctx.count('hidden', n_hidden)
    ctx.count('commands', sum(len(v) for v in hooks.values()))
    if n_shown and n_hidden:
        ctx.sig(h64(case))
    if len(ctx.samples) < 2 and n_shown and n_hidden:
        ctx.sample({'filter': f_text, 'hooks': case['hooks'], 'shown': n_shown, 'hidden': n_hidden, 'lines_head': lines[:2]})


def run_late(ctx, rng, cands, spec):
    """a log attached late (the lines creating some objects are missing -> unresolved objects).  Oracle: the text each line
    has in a plain run without filter / selection, the tool's own matcher verdict at arrival (snapshot), and the selection
    model: shown iff verdict and (nothing selected or the line's connection selected)."""
    install_snapshot()
    from frontends.tui.controller import Controller
    k = rng.randint(2, 3)
    st = streams.build(rng, cands, k=k, n_each=tuple(spec['n_each']), tagged=True)
    victim = rng.randrange(k)
    cut = rng.randint(1, max(1, sum(1 for e in st['entries'] if e['ci'] == victim) // 2))
    seen = 0
    entries = []
    for e in st['entries']:
        if e['ci'] == victim and seen < cut:
            seen += 1
            continue
        entries.append(e)
    lines = [e['line'] for e in entries]
    names = {}
    for e in entries:
        if e['ci'] not in names:
            names[e['ci']] = streams.conn_name(len(names))
    ref = Session()
    ref.feed([l + '\n' for l in lines])
    per = ref.per_read()
    ref_text = {}
    for i in range(len(lines)):
        ms = [p for kk, p in per.get(i, []) if kk == 'out' and outline.parse_line(p)['kind'] == 'msg']
        if len(ms) != 1:
            return
        ref_text[i] = ms[0].strip().split(' ', 1)[1]
    hooks = {}
    e0 = rng.choice(entries)
    for _ in range(rng.randint(1, 6)):
        pos = rng.randint(0, len(lines))
        if rng.random() < 0.7:
            arg = rng.choice(list(names.values()) + ['all'])
            hooks.setdefault(pos, []).append(('connection ' + arg, 'connection', arg))
        else:
            t = rng.choice([e0['rec']['iface'], '! ' + e0['rec']['iface'], '.' + e0['rec']['name'], 'wl_*', '*'])
            hooks.setdefault(pos, []).append(('filter ' + t, 'filter', None))
    del Controller._verif_log[:]
    s = Session()
    s.feed([l + '\n' for l in lines], hooks={p: [c[0] for c in v] for p, v in hooks.items()})
    msgs = list(s.ctl.all_messages)
    snap = {mid: (v, sel) for mid, v, sel in Controller._verif_log}
    outs_for = {}
    cur = None
    for k2, p in s.events:
        if k2 == 'read':
            cur = p
            outs_for[cur] = []
        elif k2 in ('eof', 'cmd'):
            cur = None
        elif k2 == 'out' and cur is not None:
            outs_for[cur].append(p)
    selection = None
    opened = []
    app_ids = {}
    case = {'lines': lines, 'filter': None, 'hooks': {str(p): [c[0] for c in v] for p, v in hooks.items()}, 'late': True}
    unresolved = 0
    for idx in range(len(lines)):
        for c in hooks.get(idx, []):
            if c[1] == 'connection':
                if c[2] == 'all':
                    selection = None
                else:
                    # (a connection's app id works as its name too: thorough tier, seed 21, `connection B` while only A - whose
                    # app id is "B" - existed)
                    hit = streams.select_connection(c[2], opened, app_ids)
                    if hit is not None:
                        selection = hit
        name = names[entries[idx]['ci']]
        if name not in opened:
            opened.append(name)
        if streams.app_id_of(entries[idx]['rec']):
            app_ids[name] = streams.app_id_of(entries[idx]['rec'])
        if idx >= len(msgs):
            ctx.violation('not-recorded', '[late attach] %d messages recorded for %d lines' % (len(msgs), len(lines)), case)
            return
        verdict = snap.get(id(msgs[idx]), (None, None))[0]
        if msgs[idx].obj.connection is None:
            unresolved += 1
        shown = [o for o in outs_for.get(idx, []) if outline.parse_line(o)['kind'] == 'msg']
        want = bool(verdict) and (selection is None or selection == name)
        ctx.ev()
        if bool(shown) != want or len(shown) > 1:
            ctx.violation('late-attach-shown', '[late attach] line %d %r of connection %s (unresolved target: %r): shown=%r, but the tool\'s own filter said %r and connection %r is selected' % (
                idx, lines[idx][:100], name, msgs[idx].obj.connection is None, bool(shown), verdict, selection), dict(case, line_index=idx))
            return
        if shown and shown[0].strip().split(' ', 1)[1] != ref_text[idx]:
            ctx.violation('shown-other-text', '[late attach] line %d shown as %r, in a plain run %r' % (idx, shown[0][:160], ref_text[idx][:160]), dict(case, line_index=idx))
            return
    ctx.count('late_sessions')
    ctx.count('late_unresolved_messages', unresolved)
    if unresolved:
        ctx.sig(['late', h64(case)])


def run_write_fault(ctx, rng, cands, spec):
    """fault injection at the output boundary: the stream the live view writes to fails once (a closed pipe, Ctrl-C inside
    gdb.write).  The message whose line could not be written must still be recorded - per connection and in the
    all-connections record that `list` searches."""
    from backends.libwayland_debug_output import parse
    st = streams.build(rng, cands, k=rng.randint(1, 3), n_each=(10, 40), tagged=True)
    lines = [e['line'] for e in st['entries']]
    s = Session()
    fail_at = rng.randrange(len(lines))
    orig_show = s.output.show
    state = {'armed': False, 'fired': 0}

    def show(*msg):
        if state['armed']:
            state['armed'] = False
            state['fired'] += 1
            raise OSError(32, 'Broken pipe (injected by the harness)')
        return orig_show(*msg)
    s.output.show = show
    parser = parse.Parser(s.output, s.cm)
    delivered = 0
    for i, l in enumerate(lines):
        cid, m = parse.message(l)
        if i == fail_at and cid in parser.known_connections:
            state['armed'] = True
        try:
            parser.handle_message(cid, m)
        except OSError:
            pass
        state['armed'] = False
        delivered += 1
    ctx.ev()
    ctx.count('write_fault_sessions')
    ctx.count('write_faults_injected', state['fired'])
    case = {'lines': lines, 'filter': None, 'hooks': {}, 'write_fault_at': fail_at}
    per = sum(len(c.messages()) for c in s.cm.connections())
    n0 = len(s.events)
    s.command('list *')
    listed = [p for k2, p in s.events[n0:] if k2 == 'out' and outline.parse_line(p)['kind'] == 'msg']
    if per != delivered or len(listed) != delivered:
        ctx.violation('not-recorded-after-write-fault', '%d messages arrived (the write of line %d failed): connections recorded %d, `list *` shows %d' % (
            delivered, fail_at, per, len(listed)), case)
    elif state['fired']:
        ctx.sig(['write-fault', h64(lines), fail_at])


def run(ctx, spec):
    env.setup()
    cands = wlxml.shipped(env.REPO)
    if spec.get('shard') == 0 and ctx.tier == 'thorough':
        from .. import objcheck
        objcheck.long_history(ctx, ctx.rng, cands, 101000)     # (more messages on one connection than any round number a cap might use below it)
    for i in range(spec['n']):
        run_one(ctx, ctx.rng, cands, spec)
        if i % 4 == 0:
            run_write_fault(ctx, ctx.rng, cands, spec)
        if i % 3 == 0:
            run_late(ctx, ctx.rng, cands, spec)
        if ctx.out_of_time():
            break


def finalize(m):
    c = m['counters']
    if c.get('shown', 0) == 0 or c.get('hidden', 0) == 0:
        return ['the workload never both showed and hid messages']
    return []


def replay(ctx, case):
    env.setup()
    if 'long_history' in case:
        from .. import objcheck, wlxml as _w
        return objcheck.long_history(ctx, ctx.rng, _w.shipped(env.REPO), case['long_history'])
    s = Session(filter_text=case.get('filter'))
    s.feed([l + '\n' for l in case['lines']], hooks={int(p): v for p, v in case['hooks'].items()})
    # decide again from the stored per-line expectation [must be shown, may be shown]
    if case.get('expect'):
        cur = None
        shown = {}
        for k, p in s.events:
            if k == 'read':
                cur = p
            elif k in ('eof', 'cmd'):
                cur = None
            elif k == 'out' and cur is not None and outline.parse_line(p)['kind'] == 'msg':
                shown[cur] = shown.get(cur, 0) + 1
        for i, (must, may) in enumerate(case['expect']):
            ctx.ev()
            n = shown.get(i, 0)
            if n > 1 or (must and n == 0) or (not may and n):
                ctx.violation('live-view', 'line %d %r shown %d times; stored expectation: must be shown=%r, may be shown=%r' % (i, case['lines'][i][:120], n, must, may), case)
                break
    idx = case.get('line_index', 0)
    seen = False
    for k, p in s.events:
        if k == 'read':
            seen = p >= idx - 2 and p <= idx + 1
            if seen:
                print('read', p, case['lines'][p])
        elif k == 'cmd':
            print('cmd', p)
        elif seen or k == 'err':
            print('  ', k, outline.strip_sgr(str(p))[:200])
