"""C10 - GDB halts the program at a message iff it matches the breakpoint matcher.
Temporal monitor: a small state machine (halted?, accumulated breakpoint matcher, selected connection) is stepped on
every event of a random interleaving of inferior messages (materialised closures through the real extract + plugin code
on the gdb shim, several connections) and user commands typed at the (gdb) prompt while halted or before start.
 * the boolean returned by the breakpoint's stop() must equal model(breakpoint matches AND connection selected);
 * a `Stopped at <message>` notice appears iff it halts;
 * after a command: `resume` (any spelling) -> exactly one gdb `continue`, `quit` -> gdb `quit`, anything else -> neither;
   continuing with gdb's own `continue` instead must not leave a stale halt behind;
 * file/run mode: TerminalUI.run_until_stopped() prompts exactly until the first resume/quit."""
from .. import env, gdbsim, wlxml, history, outline, streams, mgen, mref, joinref
from ..runner import h64
from . import c05, c12

PROPERTY = 'C10'
RULE = ('GDB mode: 1..4 connections each following a simulated history, interleaved; -b given or not; at every halt 0..4 commands drawn from '
        'breakpoint (alternatives/exclusions/*/!/malformed), connection X|all|bogus, filter, list, help, matcher, unknown, then resume (any '
        'spelling), gdb continue, or quit. Terminal UI: scripted prompts of 1..12 commands. distinct = hash of the (event, command) '
        'sequence; non-trivial = run with at least one halt and one message left running')
ASSUMPTIONS = ['breakpoint membership by the reference matcher semantics (C05/C12), only definite values compared',
               'the shim run loop models gdb: stop() -> True halts, a Python exception in stop() halts']
REQUIRED = ['backends/gdb_plugin/plugin.py:Plugin.process_message', 'backends/gdb_plugin/plugin.py:Plugin.invoke_command',
            'backends/gdb_plugin/plugin.py:WlClosureCallBreakpoint.stop', 'frontends/tui/controller.py:Controller.connection_got_new_message',
            'core/persistent_ui_state.py:PersistentUIState.pause_requested', 'frontends/tui/terminal_ui.py:TerminalUI.run_until_stopped']
RESUME = [('wl', 'resume'), ('w', 'r'), ('wayland', 'res'), ('wlresume', ''), ('wl', 'wlresume'), ('wl', 'wl r'), ('wl', 'resume now')]
QUIT = [('wl', 'quit'), ('w', 'q'), ('wlquit', ''), ('wl', 'wlq')]


def plan(tier, seed):
    if tier == 'quick':
        return [{'n': 40, 'gdb_shim': True, 'tui': 200} for _ in range(14)] + [{'mode': 'tierb', 'n': 5, 'gdb_shim': True} for _ in range(2)]
    return [{'n': 260, 'gdb_shim': True, 'tui': 2500} for _ in range(56)] + [{'mode': 'tierb', 'n': 25, 'gdb_shim': True} for _ in range(8)]


def ws_variant(rng, text, nm='wl'):
    """the white space between a command word and its argument, and around the line, is any white space"""
    if ' ' in text and nm in ('wl', 'w') and text[:text.index(' ')].isalpha() and rng.random() < 0.3:
        # only the gap after the subcommand word: with `wlbreakpoint <matcher>` the first space belongs to the matcher, possibly to a quoted string in it
        text = text.replace(' ', rng.choice(['\t', '  ', ' \t', '\x0c', '\t\t']), 1)
    if rng.random() < 0.1:
        text = rng.choice(['', ' ', '\t']) + text + rng.choice([' ', '\t', '  '])
    return text


def gen_user_command(rng, g, names, appids=()):
    nm, arg, kind, payload = gen_user_command_(rng, g, names, appids)
    return nm, ws_variant(rng, arg, nm), kind, payload


def gen_user_command_(rng, g, names, appids=()):
    """-> (gdb command name, arg, kind, payload)"""
    r = rng.random()
    if r < 0.45:
        text, ast = c12.gen_step(rng, g)
        nm, pre = rng.choice([('wl', 'breakpoint '), ('wl', 'b '), ('wlbreakpoint', ''), ('w', 'break ')])
        return nm, pre + text, 'breakpoint', ast
    if r < 0.6:
        arg = rng.choice(names + ['all', 'bogus'] + list(appids)[:4])
        if appids and rng.random() < 0.3:
            arg = rng.choice(list(appids))
        nm, pre = rng.choice([('wl', 'connection '), ('wlconnection', ''), ('wl', 'c ')])
        return nm, pre + arg, 'connection', arg
    if r < 0.7:
        text, ast = c12.gen_step(rng, g)
        return 'wl', 'filter ' + text, 'neutral', None
    nm, arg = rng.choice([('wl', 'list'), ('wl', 'help'), ('wlhelp', 'matcher'), ('wl', 'matcher wl_surface'), ('wl', 'bogus'), ('wl', ''), ('wllist', '~ 2'),
                          ('wl', 'breakpoint'), ('wl', 'connection'), ('w', 'x y'), ('wlmatcher', '[')])
    return nm, arg, 'neutral', None


def run_gdb_session(ctx, rng, cands, trace=None):
    k = rng.randint(1, 4)
    st = streams.build(rng, cands, k=k, n_each=(15, 60), tagged=True, opts={'titles': rng.choice([0.02, 0.1])})
    projs = [c05.project(e, st['names'][e['ci']], {'new': True, 'comma': False}) for e in st['entries']]
    appids = [a for a in (streams.app_id_of(e['rec']) for e in st['entries']) if a and ' ' not in a]
    g = mgen.Gen(rng, mgen.vocab_of(projs), depth=1)
    b_text, b_ast = (None, None)
    if rng.random() < 0.6:
        b_text, b_ast = c12.gen_step(rng, g)
        if b_ast is None or b_text in ('*', '!'):
            b_text, b_ast = (None, None)
    try:
        gs = gdbsim.GdbSession(stop_text=b_text)
    except RuntimeError:
        return
    state = joinref.from_matcher(b_ast) if b_ast is not None else ('const', False)
    selection = None
    opened = []
    app_ids = {}
    script = []
    halts = runs = 0
    seq = 0
    order = []
    names = list(st['names'].values())
    last_of = {}
    for j, e0 in enumerate(st['entries']):
        last_of[e0['ci']] = j
    destroy_finished = trace is None and (st['strategy'] == 'first' or rng.random() < 0.25)
    for ci in st['names']:
        gs.new_connection(ci, st['sides'][ci])
    case_base = {'lines': [e['line'] for e in st['entries']], 'b': b_text}
    if trace is not None:
        trace.update({'st': st, 'b': b_text, 'halts': {}, 'before': [], 'quit_at': None, 'cur': None})

    def user_phase(halted, max_cmds):
        """commands at the prompt; -> 'continue' | 'quit' | 'halted'"""
        nonlocal state, selection
        for _ in range(rng.randint(0, max_cmds)):
            nm, arg, kind, payload = gen_user_command(rng, g, names, appids)
            n0, x0 = gs.mark()
            script.append(['cmd', nm, arg])
            if trace is not None:
                (trace['before'] if trace['cur'] is None else trace['halts'][trace['cur']]).append((nm + ' ' + arg).strip())
            case = dict(case_base, script=script[-60:])
            try:
                executed = gs.sim.command(nm, arg)
            except BaseException as e:
                ctx.violation('command-exception', '(gdb) %s %s raised %s: %r' % (nm, arg, type(e).__name__, e), case)
                return 'abort'
            ctx.ev()
            if executed:
                ctx.violation('command-resumes', '(gdb) %s %s made gdb execute %r: only resume/quit may end a halt' % (nm, arg, executed), case)
                return 'abort'
            errs = [l for l in gs.written_since(n0) if 'Failed to parse' in l]
            if kind == 'breakpoint' and payload is not None and not errs:
                state = joinref.join(state, payload)
            elif kind == 'connection':
                if payload == 'all':
                    selection = None
                else:
                    hit = streams.select_connection(payload, opened, app_ids)
                    if hit:
                        selection = hit
        if not halted:
            return 'continue'
        r = rng.random()
        if r < 0.25:
            script.append(['gdb-continue'])
            if trace is not None:
                trace['halts'][trace['cur']].append('continue')
            return 'continue'           # the user types gdb's own `continue`
        nm, arg = rng.choice(RESUME) if r < 0.92 else rng.choice(QUIT)
        want = 'continue' if (nm, arg) in RESUME else 'quit'
        arg = ws_variant(rng, arg)
        script.append(['cmd', nm, arg])
        if trace is not None:
            trace['halts'][trace['cur']].append((nm + ' ' + arg).strip())
            if want == 'quit':
                trace['quit_at'] = trace['cur']
        case = dict(case_base, script=script[-60:])
        try:
            executed = gs.sim.command(nm, arg)
        except BaseException as e:
            ctx.violation('command-exception', '(gdb) %s %s raised %s: %r' % (nm, arg, type(e).__name__, e), case)
            return 'abort'
        ctx.ev()
        if executed != [want]:
            ctx.violation('resume-quit', '(gdb) %s %s made gdb execute %r, expected exactly [%r]' % (nm, arg, executed, want), case)
            return 'abort'
        return want

    if user_phase(False, 2) == 'abort':
        return
    after_halt = False
    for idx, e in enumerate(st['entries']):
        name = st['names'][e['ci']]
        if rng.random() < (0.5 if after_halt else 0.03):
            # libwayland destroys a connection the plugin has never seen: never a reason to halt, whatever happened before
            seq += 1
            order.append(['destroy'])
            script.append(['destroy-never-seen'])
            n0, x0 = gs.mark()
            stop, exc = gs.sim.deliver({'kind': 'destroy', 'connection': gs.world.connection(), 'thread': 1})
            ctx.ev()
            ctx.count('destroy_events')
            if exc is not None or stop:
                ctx.violation('halt-at-destroy', 'wl_connection_destroy of an unrelated connection %s (previous event was a halt continued with gdb\'s continue: %r)' % (
                    'raised %r' % (exc,) if exc is not None else 'halted the program', after_halt), dict(case_base, script=script[-60:]))
                return
        after_halt = False
        seq += 1
        order.append(['msg', idx])
        # (the thread the message arrives on is no reason to halt or not to halt; tier B replays use one thread)
        ev = gs.event_for(e['ci'], e['rec'], rng, 1 if trace is not None else rng.choice([1, 1, 1, 2, 3]))
        n0, x0 = gs.mark()
        script.append(['msg', idx])
        stop, exc = gs.deliver(ev)
        ctx.ev()
        case = dict(case_base, script=script[-60:], message_index=idx)
        if exc is not None:
            ctx.violation('stop-exception', 'line %d: %s: %r escaped stop()' % (idx, type(exc).__name__, exc), case)
            return
        if name not in opened:
            opened.append(name)
        if streams.app_id_of(e['rec']):
            app_ids[name] = streams.app_id_of(e['rec'])
        lo, hi = joinref.selected(state, projs[idx])
        in_sel = selection is None or selection == name
        lines = gs.written_since(n0)
        stopped_notice = [l for l in lines if outline.parse_line(l)['kind'] == 'stopped']
        if gs.gdb.STATE.executed[x0:]:
            ctx.violation('message-executes', 'a message made gdb execute %r' % gs.gdb.STATE.executed[x0:], case)
            return
        if stop and (not in_sel or hi is False):
            ctx.violation('halt-not-matching', 'halted at line %d %r although the breakpoint %s %s' % (
                idx, e['line'][:120], joinref.describe(state), 'rejects it' if in_sel else 'matches only on the selected connection %s' % selection), case)
            return
        if not stop and in_sel and lo is True:
            ctx.violation('no-halt-matching', 'left running at line %d %r although the breakpoint %s matches it' % (idx, e['line'][:120], joinref.describe(state)), case)
            return
        if bool(stopped_notice) != bool(stop):
            ctx.violation('stopped-notice', 'line %d: stop()=%r but `Stopped at` notices: %r' % (idx, stop, stopped_notice[:2]), case)
            return
        if idx == last_of.get(e['ci']) and destroy_finished and not stop:
            # libwayland destroys the connection after its last message (the selection, if it was this connection, stays what the
            # user made it; a connection that appears later is another connection)
            n0, x0 = gs.mark()
            dstop, dexc = gs.sim.deliver({'kind': 'destroy', 'connection': gs.conns[e['ci']]['addr'], 'thread': 1})
            script.append(['destroy', e['ci']])
            ctx.count('destroy_events_known')
            if dexc is not None or dstop:
                ctx.violation('halt-at-destroy', 'wl_connection_destroy of connection %s %s' % (name, 'raised %r' % (dexc,) if dexc is not None else 'halted the program'),
                              dict(case_base, script=script[-60:]))
                return
        if stop:
            halts += 1
            ctx.setadd('transitions', 'run>halt')
            if trace is not None:
                trace['cur'] = seq
                trace['halts'][seq] = []
            res = user_phase(True, 4)
            after_halt = script[-1] == ['gdb-continue']
            if res == 'abort':
                return
            ctx.setadd('transitions', 'halt>' + res + ('(gdb)' if script[-1] == ['gdb-continue'] else ''))
            if res == 'quit':
                break
        else:
            runs += 1
            ctx.setadd('transitions', 'run>run')
    if trace is not None:
        trace['complete'] = True
        trace['order'] = order
    ctx.count('gdb_sessions')
    ctx.count('halts', halts)
    ctx.count('left_running', runs)
    if halts and runs:
        ctx.sig(h64(script))
    if len(ctx.samples) < 1 and halts:
        ctx.sample({'b': b_text, 'script_head': script[:25]})


def run_tierb(ctx, rng, cands):
    """replay a tier-A session under real gdb: same inferior events, same commands at the same halts; the program must halt
    at exactly the same messages, and resume / quit must behave the same"""
    from .. import gdbreal
    import re
    if not gdbreal.available():
        ctx.count('tierb_skipped_no_gdb_or_inferior')
        return
    trace = {}
    nv = len(ctx.violations)
    run_gdb_session(ctx, rng, cands, trace)
    if not trace.get('complete') or len(ctx.violations) != nv:
        return
    st = trace['st']
    # gdb's CLI: keep to commands whose text survives it unchanged
    allc = trace['before'] + [c for v in trace['halts'].values() for c in v]
    if any('#' in c or '\\' in c or '\n' in c or c != c.strip() or '$' in c for c in allc):
        ctx.count('tierb_sessions_skipped_cli_characters')
        return
    script = gdbreal.Script()
    conn = {ci: script.conn(st['sides'][ci]) for ci in st['names']}
    for item in trace['order']:
        if item[0] == 'destroy':
            script.destroy(-1)
            continue
        e = st['entries'][item[1]]
        rec = e['rec']
        request = rec['send_c']
        sending = request if e['side'] == 'client' else not request
        args = []
        for a in rec['args']:
            a = dict(a)
            if a['k'] == 'o':
                a['decl'] = None if a['v'] is None else a['v']['iface']
            args.append(a)
        script.event(conn[e['ci']], 1, sending, rng.choice([0, 1]), rec['iface'], rec['id'], rec['name'], ''.join(a['k'] for a in args), args)
    opts = ['-C'] + (['-b', trace['b']] if trace['b'] else [])
    try:
        r = gdbreal.run(script, argv_opts=opts, at_halt={str(k): v for k, v in trace['halts'].items()}, before_run=trace['before'])
    except Exception as e:
        ctx.inconc('tier B run failed: %r' % (e,))
        return
    if not any(x['t'] == 'loaded' for x in r['records']):
        ctx.inconc('tier B: the plugin did not load inside gdb: %s' % (r['stderr'][-300:],))
        return
    ctx.ev()
    ctx.count('tierb_sessions')
    halts_b = [x['seq'] for x in r['records'] if x['t'] == 'halt']
    want = sorted(trace['halts'])
    case = {'lines': [e['line'] for e in st['entries']], 'b': trace['b'], 'halt_commands': {str(k): v for k, v in trace['halts'].items()}, 'before': trace['before'], 'tier': 'B'}
    if halts_b != want:
        ctx.violation('tierb-halts-differ', 'under real gdb the program halted at events %r, on the shim (and in the model) at %r; stderr %s' % (
            halts_b[:12], want[:12], r['stderr'][-300:]), case)
        return
    stopped = [x['seq'] for x in r['records'] if x['t'] == 'write' and 'Stopped at' in x['text']]
    if sorted(set(stopped)) != want:
        ctx.violation('tierb-stopped-notice', '`Stopped at` notices at %r, halts at %r' % (stopped[:12], want[:12]), case)
        return
    execs = [(x['seq'], x['cmd']) for x in r['records'] if x['t'] == 'execute' and x['cmd'] in ('continue', 'quit')]
    want_exec = []
    for k in want:
        last = trace['halts'][k][-1] if trace['halts'][k] else None
        if last is not None and last != 'continue':
            want_exec.append((k, 'quit' if trace['quit_at'] == k else 'continue'))
    if execs != want_exec:
        ctx.violation('tierb-resume-quit', 'the plugin made real gdb execute %r, expected %r' % (execs[:10], want_exec[:10]), case)
        return
    exited = any(x['t'] == 'exited' for x in r['records'])
    if trace['quit_at'] is None and not exited:
        ctx.violation('tierb-not-finished', 'the program did not run to its end under gdb: %s' % r['stderr'][-300:], case)
        return
    ctx.count('tierb_halts_identical', len(want))
    ctx.sig(['B', h64(case)])


def run_tui(ctx, rng, n):
    """file / run mode: the prompt keeps prompting until resume or quit"""
    from ..session import Session
    from frontends.tui import TerminalUI
    for i in range(n):
        s = Session()
        cmds = []
        stop_at = None
        for j in range(rng.randint(1, 12)):
            r = rng.random()
            if r < 0.2:
                c = rng.choice(['resume', 'r', 'res', 'wl resume', 'wlr', 'w r', 'quit', 'q', 'wlq', 'wl quit', 'qu', 'resume x'])
                if stop_at is None:
                    stop_at = j
            else:
                c = rng.choice(['help', 'list', 'filter wl_surface', 'breakpoint .x', 'connection', 'bogus', '', 'rx', 'quitx', 'l ~ 2', 'matcher [', 'wl', 'h r', 'help quit'])
            cmds.append(ws_variant(rng, c))
        if stop_at is None:
            cmds.append('q')
            stop_at = len(cmds) - 1
        prompts = []

        def input_func(prompt, cmds=cmds, prompts=prompts):
            prompts.append(prompt)
            if len(prompts) > len(cmds):
                raise EOFError('the UI asked for more commands than the script has')
            return cmds[len(prompts) - 1]
        ui = TerminalUI(s.ctl, s.ctl, input_func)
        case = {'tui_commands': cmds}
        ctx.ev()
        via_main = i % 4 == 0
        try:
            if via_main:
                # the way file mode really gets there: main.file_input_main(path, ...) loads the file, then prompts
                import main as main_mod
                import tempfile, os
                fd, path = tempfile.mkstemp(prefix='verif-c10-', suffix='.log')
                os.write(fd, b'[1.000]  -> wl_display@1.get_registry(new id wl_registry@2)\n')
                os.close(fd)
                try:
                    main_mod.file_input_main(path if i % 8 else path + '.missing', s.output, s.cm, s.ctl, s.ctl, input_func)
                finally:
                    os.unlink(path)
                ctx.count('prompts_through_file_input_main')
            else:
                ui.run_until_stopped()
        except EOFError:
            ctx.violation('prompt-count', 'the prompt did not stop at command %d %r of %r' % (stop_at, cmds[stop_at], cmds), case)
            continue
        except BaseException as e:
            ctx.violation('tui-exception', '%s: %r for %r' % (type(e).__name__, e, cmds), case)
            continue
        if len(prompts) != stop_at + 1:
            ctx.violation('prompt-count', '%d prompts for %r, the first resume/quit is command %d' % (len(prompts), cmds, stop_at), case)
        if any(p != 'wl debug $ ' for p in prompts):
            ctx.count('odd_prompts')
        ctx.sig(['tui', cmds])
        ctx.count('tui_runs')


def run_gdb_late(ctx, rng, cands):
    """GDB attached to a program that is already running: the lines that created some objects were never seen, messages on
    them stay unresolved.  Breakpoint `*`, one connection selected at the first halt: from then on the program is halted
    at exactly the messages of that connection, resolved target or not."""
    k = rng.randint(2, 3)
    st = streams.build(rng, cands, k=k, n_each=(12, 40), tagged=True)
    victim = rng.randrange(k)
    cut = rng.randint(1, max(1, sum(1 for e in st['entries'] if e['ci'] == victim) // 2))
    seen = 0
    entries = []
    for e in st['entries']:
        if e['ci'] == victim and seen < cut:
            seen += 1
            continue
        entries.append(e)
    names = {}
    for e in entries:
        if e['ci'] not in names:
            names[e['ci']] = streams.conn_name(len(names))
    if victim not in names:
        return
    late_session(ctx, rng, [{'ci': e['ci'], 'side': st['sides'][e['ci']], 'rec': e['rec'], 'line': e['line']} for e in entries],
                 {str(k2): v for k2, v in names.items()}, names[victim])


def run_gdb_one_after_the_other(ctx, rng, cands):
    """a program run again and again under one gdb, the clients of a compositor coming and going: connections one after the
    other, each destroyed after its last message.  Breakpoint `*`, the first connection selected at its first halt: the selection
    stays what the user made it, a connection that appears later is another connection and its messages do not halt"""
    k = rng.randint(2, 3)
    st = streams.build(rng, cands, k=k, n_each=(6, 25), tagged=True, interleave='first')
    names = {}
    for e in st['entries']:
        if e['ci'] not in names:
            names[e['ci']] = streams.conn_name(len(names))
    first = st['entries'][0]['ci']
    late_session(ctx, rng, [{'ci': e['ci'], 'side': st['sides'][e['ci']], 'rec': e['rec'], 'line': e['line']} for e in st['entries']],
                 {str(k2): v for k2, v in names.items()}, names[first], destroy_finished=True)
    ctx.count('sessions_with_connections_one_after_the_other')


def late_session(ctx, rng, entries, names, victim_name, destroy_finished=False):
    label = '[connections one after the other]' if destroy_finished else '[late attach]'
    try:
        gs = gdbsim.GdbSession(stop_text=None)
    except RuntimeError:
        return
    for ci in names:
        gs.new_connection(int(ci), [e['side'] for e in entries if e['ci'] == int(ci)][0])
    gs.sim.command('wl', 'breakpoint *')
    selection = None
    script = []
    case_base = {'late_lines': [e['line'] for e in entries], 'victim': victim_name, 'late_entries': entries, 'late_names': names, 'late_destroy': destroy_finished}
    last_of = {e['ci']: i for i, e in enumerate(entries)}
    for idx, e in enumerate(entries):
        name = names[str(e['ci'])]
        n0, x0 = gs.mark()
        stop, exc = gs.deliver(gs.event_for(e['ci'], e['rec'], rng, rng.choice([1, 1, 2])))
        script.append(['msg', idx])
        ctx.ev()
        case = dict(case_base, script=script[-40:], message_index=idx)
        if exc is not None:
            ctx.violation('stop-exception', label + ' line %d: %s: %r escaped stop()' % (idx, type(exc).__name__, exc), case)
            return
        want = selection is None or selection == name
        if stop != want:
            ctx.violation('no-halt-matching' if want else 'halt-not-matching', label + ' breakpoint *, connection %s selected: line %d %r of connection %s %s' % (
                selection or '(none)', idx, e['line'][:110], name, 'left the program running' if want else 'halted the program'), case)
            return
        if stop:
            if selection is None and name == victim_name:
                gs.sim.command('wl', 'connection ' + name)
                selection = name
                script.append(['cmd', 'wl', 'connection ' + name])
            gs.sim.command('wl', rng.choice(['resume', 'r']))
            ctx.count('late_halts')
        if destroy_finished and last_of[e['ci']] == idx:
            dstop, dexc = gs.sim.deliver({'kind': 'destroy', 'connection': gs.conns[e['ci']]['addr'], 'thread': 1})
            script.append(['destroy', e['ci']])
            ctx.count('destroy_events_known')
            if dexc is not None or dstop:
                ctx.violation('halt-at-destroy', 'wl_connection_destroy of connection %s %s' % (name, 'raised %r' % (dexc,) if dexc is not None else 'halted the program'),
                              dict(case_base, script=script[-40:]))
                return
    ctx.count('late_gdb_sessions')


def run(ctx, spec):
    env.setup(spec)
    cands = wlxml.shipped(env.REPO)
    if spec.get('mode') == 'tierb':
        for i in range(spec['n']):
            run_tierb(ctx, ctx.rng, cands)
        return
    for i in range(spec['n']):
        run_gdb_session(ctx, ctx.rng, cands)
        if i % 4 == 0:
            run_gdb_late(ctx, ctx.rng, cands)
        if i % 4 == 2:
            run_gdb_one_after_the_other(ctx, ctx.rng, cands)
        if ctx.out_of_time():
            break
    run_tui(ctx, ctx.rng, spec['tui'])


def finalize(m):
    c = m['counters']
    out = []
    if c.get('halts', 0) == 0 or c.get('left_running', 0) == 0:
        out.append('the workload never both halted and left the program running')
    return out


def replay(ctx, case):
    env.setup({'gdb_shim': True})
    if 'late_entries' in case:
        import random
        late_session(ctx, random.Random(0), case['late_entries'], case['late_names'], case['victim'], destroy_finished=case.get('late_destroy', False))
        return
    if 'tui_commands' in case:
        from ..session import Session
        from frontends.tui import TerminalUI
        s = Session()
        cmds = case['tui_commands']
        prompts = []

        def input_func(prompt):
            prompts.append(prompt)
            return cmds[len(prompts) - 1]
        try:
            TerminalUI(s.ctl, s.ctl, input_func).run_until_stopped()
        except Exception as e:
            print('exception', repr(e))
        print('prompts:', len(prompts), 'commands:', cmds)
    else:
        print('C10 GDB sessions use simulated histories; the script tail that led to the report:')
        for e in case.get('script', []):
            print('  ', e)
