"""C04 - messages are attributed to the right connection; connections are isolated.
(1) streams: k histories using the same ids concurrently, tagged <conn>, interleaved by several strategies that keep
    each connection's own order; every shown line must equal the ground truth of its own connection (projection =
    alone run = ground truth), names A, B, .. by first appearance, one New notice before the first message, one Closed
    notice per connection at EOF, `connection` listing with role / closed / message count.
(2) a sample is also run 'alone' per connection and compared with the interleaved projection (metamorphic).
(3) the ConnectionIDSink API: open / message / close / reopen / close-unknown sequences against a manager model."""
import re

from .. import wlxml, streams, objcheck, env, contracts, outline, history, printer
from ..session import Session
from ..runner import h64

PROPERTY = 'C04'
WANT = ('C02', 'C03', 'C04')
RULE = ('k=2..6 (sometimes 30+) simulated connections sharing the same object ids, interleavings uniform / round-robin / bursts / '
        'one-first; API sequences of up to 200 open/message/close/reopen/close-unknown operations on <= 4 ids. distinct = hash '
        'of the tag sequence (interleaving) or of the operation sequence; non-trivial = more than one connection involved')
ASSUMPTIONS = ['simulator ground truth (vlib/history.py)', 'order of Closed notices at EOF is free (set iteration in Parser.cleanup)']
REQUIRED = ['core/connection_manager.py:ConnectionManager.open_connection', 'core/connection_manager.py:ConnectionManager.message',
            'core/connection_manager.py:ConnectionManager.close_connection',
            'backends/libwayland_debug_output/parse.py:Parser.handle_message', 'backends/libwayland_debug_output/parse.py:Parser.cleanup']


def plan(tier, seed):
    # mode gdb: the connection-id interface as its real user drives it - the GDB plugin, ids taken from wl_connection addresses
    # (address reuse, owner structs handed out again, several threads); sequences and judge are C15's, a connection mix-up is C04's too
    if tier == 'quick':
        return [{'streams': 24, 'api': 150, 'len': [20, 250]} for _ in range(14)] + [{'mode': 'gdb', 'n': 40, 'gdb_shim': True, 'len': [20, 150]} for _ in range(2)]
    return [{'streams': 160, 'api': 1200, 'len': [20, 600]} for _ in range(56)] + [{'mode': 'gdb', 'n': 300, 'gdb_shim': True, 'len': [20, 300]} for _ in range(8)]


def check_listing(ctx, st, s, probs):
    """the `connection` command after EOF: every connection, role, closed, message count"""
    n0 = len(s.events)
    s.command('connection')
    lines = [outline.strip_sgr(p) for k, p in s.events[n0:] if k == 'out']
    got = {}
    for l in lines:
        m = objcheck.LIST_RE.match(l)
        if not m:
            probs.append(('C04', 'listing-format', 'unrecognised listing line %r' % l, None))
            continue
        got[m.group(2)] = (m.group(3), m.group(6), int(m.group(7)), m.group(5) is not None)
    for ci, name in st['names'].items():
        n = sum(1 for e in st['entries'] if e['ci'] == ci)
        want = (streams.role_of(st, ci), 'closed', n, True)
        if got.get(name) != want:
            probs.append(('C04', 'listing', 'connection %s listed as %r, expected %r' % (name, got.get(name), want), None))
    if len(got) != len(st['names']):
        probs.append(('C04', 'listing', 'listing has %d connections, expected %d' % (len(got), len(st['names'])), None))


def alone_projection(ctx, st, s, probs):
    """metamorphic: each connection's lines fed alone must show the same thing (connection name and time column aside)"""
    per = s.per_read()
    for ci, name in st['names'].items():
        mine = [(i, e) for i, e in enumerate(st['entries']) if e['ci'] == ci]
        inter = []
        for i, e in mine:
            for k, p in per.get(i, []):
                it = outline.parse_line(outline.strip_sgr(p))
                if k == 'out' and it['kind'] == 'msg':
                    inter.append(re.sub(r' after -?\d+\.\d{4}s', ' after Ns', it['text'].split(': ', 1)[1]))
        s2 = Session()
        s2.feed([e['line'] + '\n' for i, e in mine])
        alone = [re.sub(r' after -?\d+\.\d{4}s', ' after Ns', it['text'].split(': ', 1)[1]) for _, it in s2.out_items() if it['kind'] == 'msg']
        ctx.count('alone_runs')
        if alone != inter:
            j = next((j for j in range(min(len(alone), len(inter))) if alone[j] != inter[j]), min(len(alone), len(inter)))
            probs.append(('C04', 'projection', 'connection %s: interleaved shows %r, alone shows %r' % (
                name, inter[j:j + 1], alone[j:j + 1]), mine[j][0] if j < len(mine) else None))
        # selecting the connection by its name shows that connection - whatever titles or app ids other connections gave themselves
        n0 = len(s.events)
        s.command('connection ' + (name if ci % 2 else name.lower()))
        s.command('list')
        listed = [outline.parse_line(outline.strip_sgr(p)) for k, p in s.events[n0:] if k == 'out']
        got = [re.sub(r' after -?\d+\.\d{4}s', ' after Ns', it['text'].split(': ', 1)[1]) for it in listed if it['kind'] == 'msg']
        wrong = [it['conn'] for it in listed if it['kind'] == 'msg' and it['conn'] != name]
        s.command('connection all')
        if wrong or got != inter:
            probs.append(('C04', 'selection-by-name', '`connection %s` then `list`: %d lines listed (%d of other connections, e.g. %r), connection %s has %d' % (
                name, len(got), len(wrong), wrong[:1], name, len(inter)), None))


def run_streams(ctx, spec, cands):
    rng = ctx.rng
    for i in range(spec['streams']):
        r = rng.random()
        k = rng.randint(2, 6) if r < 0.9 else rng.randint(27, 34)
        n_each = tuple(spec['len']) if k <= 6 else (3, 12)
        st = streams.build(rng, cands, k=k, n_each=n_each, tagged=True, opts={'lookalike_tags': True, 'titles': rng.choice([0.02, 0.15])})
        s, probs = objcheck.run_stream(ctx, st, want=WANT)
        check_listing(ctx, st, s, probs)
        if i % 4 == 0 and k <= 6:
            alone_projection(ctx, st, s, probs)
        ctx.ev(len(st['entries']))
        ctx.count('streams')
        ctx.count('connections', k)
        ctx.counters['max_connections'] = max(ctx.counters.get('max_connections', 0), k)
        ctx.sig(['stream', h64([e['ci'] for e in st['entries']])])
        ctx.setadd('strategies', st['strategy'])
        objcheck.report(ctx, st, probs)
        if len(ctx.samples) < 1:
            ctx.sample({'k': k, 'strategy': st['strategy'], 'tag_sequence_head': [e['tag'] for e in st['entries'][:40]],
                        'lines_head': [e['line'] for e in st['entries'][:3]]})
        if ctx.out_of_time():
            break


# ------------------------------------------------------------------------------------------------- API sequences

def run_api(ctx, spec, cands):
    """open/message/close/reopen/close-unknown on the ConnectionIDSink interface against a manager model"""
    env.setup()
    contracts.install()
    from core import ConnectionManager, wl
    from core.output import Output, stream
    from frontends.tui import Controller
    from core import matcher
    from backends.libwayland_debug_output import parse
    rng = ctx.rng
    for n in range(spec['api']):
        env.reset_globals(False)
        cm = ConnectionManager()
        events = []

        class Rec(stream.Base):
            def override_write(self, string):
                events.append(string)
        ctl = Controller(Output(False, True, Rec(), Rec()), cm, matcher.always, matcher.never)
        ids = ['id%d' % i for i in range(rng.randint(1, 4))]
        model_open = {}          # id -> index in model_list
        model_list = []          # {'name', 'open', 'msgs': [...], 'sim_pos'}
        ops = []
        t = 0.0
        length = rng.randint(1, 200 if ctx.tier == 'thorough' else 60)
        problem = None
        for step in range(length):
            r = rng.random()
            cid = rng.choice(ids)
            t += rng.choice([0.0, 0.001, 1.5])
            if cid not in model_open:
                op = 'open' if r < 0.8 else 'close'
            else:
                op = 'message' if r < 0.7 else ('close' if r < 0.9 else 'open')
            ops.append([op, cid])
            mark = len(events)
            try:
                if op == 'open':
                    is_server = rng.choice([True, False, None])
                    c = cm.open_connection(t, cid, is_server)
                    if cid in model_open:
                        model_list[model_open[cid]]['open'] = False
                    model_open[cid] = len(model_list)
                    model_list.append({'name': streams.conn_name(len(model_list)), 'open': True, 'n': 0, 'next_id': 2})
                    ops[-1].append(is_server)
                    if c.name() != model_list[-1]['name']:
                        problem = ('api-name', 'open #%d got name %r, expected %r' % (len(model_list), c.name(), model_list[-1]['name']))
                elif op == 'close':
                    cm.close_connection(t, cid)
                    if cid in model_open:
                        model_list[model_open.pop(cid)]['open'] = False
                else:
                    me = model_list[model_open[cid]]
                    # a sync with a fresh id: on a fresh object table the first one must be labelled @2a, the n-th @(n+1)a
                    nid = me['next_id']
                    me['next_id'] += 1
                    me['n'] += 1
                    _, msg = parse.message('[%.3f]  -> wl_display@1.sync(new id wl_callback@%d)' % (t * 1000, nid))
                    cm.message(cid, msg)
                    shown = [outline.parse_line(e) for e in events[mark:]]
                    shown = [x for x in shown if x['kind'] == 'msg']
                    want_body = '%s: → wl_display@1a.sync(callback=new wl_callback@%da)' % (me['name'], nid)
                    if len(shown) != 1 or shown[0]['text'].split(' ', 1)[1].strip() != want_body and want_body not in shown[0]['text']:
                        problem = ('api-route', 'message to %s (%s) shown as %r, expected %r' % (
                            cid, me['name'], [x['text'] for x in shown], want_body))
            except Exception as e:
                problem = ('api-exception', '%s %r at op %r' % (type(e).__name__, e, ops[-1]))
            # manager-level comparison after every step
            if problem is None:
                conns = cm.connections()
                if [c.name() for c in conns] != [m['name'] for m in model_list]:
                    problem = ('api-list', 'connections() %r, model %r' % ([c.name() for c in conns], [m['name'] for m in model_list]))
                else:
                    for c, m in zip(conns, model_list):
                        if c.is_open() != m['open'] or len(c.messages()) != m['n']:
                            problem = ('api-state', 'connection %s open=%r messages=%d, model open=%r messages=%d' % (
                                c.name(), c.is_open(), len(c.messages()), m['open'], m['n']))
                            break
                # notices
                notes = [outline.parse_line(e) for e in events[mark:]]
                notes = [x for x in notes if x['kind'] == 'notice']
                want_notes = {'open': (1 if True else 0), 'close': None, 'message': 0}[op]
            for kind, msg in contracts.drain():
                problem = problem or (kind, msg)
            if problem:
                break
        ctx.ev(len(ops))
        ctx.count('api_sequences')
        ctx.count('api_ops', len(ops))
        if len(ids) > 1 or any(o[0] == 'open' for o in ops[1:]):
            ctx.sig(['api', h64(ops)])
        for a, b in zip(ops, ops[1:]):
            ctx.setadd('api_transitions', a[0] + '>' + b[0] + ('=' if a[1] == b[1] else '!'))
        # notices over the whole sequence: one New per open, one Closed per model close
        if not problem:
            notes = [outline.parse_line(e) for e in events]
            new = [x['conn'] for x in notes if x['kind'] == 'notice' and x['what'] == 'New']
            closed = sorted(x['conn'] for x in notes if x['kind'] == 'notice' and x['what'] == 'Closed')
            if new != [m['name'] for m in model_list]:
                problem = ('api-notice-new', 'New notices %r, model %r' % (new, [m['name'] for m in model_list]))
            elif closed != sorted(m['name'] for m in model_list if not m['open']):
                problem = ('api-notice-closed', 'Closed notices %r, model closed %r' % (closed, sorted(m['name'] for m in model_list if not m['open'])))
        if problem:
            ctx.violation(problem[0], problem[1], {'api_ops': ops})
        if len(ctx.samples) < 2 and n == 0:
            ctx.sample({'api_ops_head': ops[:25]})


def run_late(ctx, spec, cands):
    """logs attached late / with lost lines: the first line a tag carries may be unresolvable (delete_id of an id never seen,
    a message on an object whose creation is missing).  Whatever happens to such a line, one tag stays ONE connection:
    announced once, closed once at the end, and every message line shown for the tag carries that connection's name."""
    rng = ctx.rng
    for n in range(max(2, spec['streams'] // 2)):
        k = rng.randint(2, 5)
        st = streams.build(rng, cands, k=k, n_each=(15, 80), tagged=True, opts={'hot': rng.choice([0.3, 0.6]), 'lookalike_tags': True})
        entries = list(st['entries'])
        # drop a prefix of some connections, and make some connection start with a delete_id / a message on an unknown object
        for ci in rng.sample(range(k), rng.randint(1, k)):
            mine = [i for i, e in enumerate(entries) if e['ci'] == ci]
            cut = rng.randint(1, max(1, len(mine) // 2))
            drop = set(mine[:cut])
            entries = [e for i, e in enumerate(entries) if i not in drop]
            if rng.random() < 0.6:
                first = next((i for i, e in enumerate(entries) if e['ci'] == ci), None)
                if first is not None:
                    tag = entries[first]['tag']
                    at = '#' if st['dialect']['new'] else '@'
                    t = entries[first]['rec']['t_us']
                    line = printer.render_time(t, st['dialect']) + '<%s> wl_display%s1.delete_id(%d)' % (tag, at, rng.choice([3, 7, 4242]))
                    entries.insert(first, {'tag': tag, 'ci': ci, 'line': line, 'rec': None})
        if not entries:
            continue
        lines = [e['line'] for e in entries]
        names = {}
        for e in entries:
            if e['ci'] not in names:
                names[e['ci']] = streams.conn_name(len(names))
        s = Session()
        s.feed([l + '\n' for l in lines])
        per = s.per_read()
        case = {'lines': lines, 'late': True}
        ctx.ev(len(lines))
        ctx.count('late_streams')
        ctx.sig(['late', h64(lines)])
        new = [outline.parse_line(p) for kk, p in s.events if kk == 'out']
        opened = [i['conn'] for i in new if i['kind'] == 'notice' and i['what'] == 'New']
        closed = sorted(i['conn'] for i in new if i['kind'] == 'notice' and i['what'] == 'Closed')
        want = [names[ci] for ci in names]
        if opened != want or closed != sorted(want) or [c.name() for c in s.cm.connections()] != want:
            ctx.violation('late-one-connection-per-tag', '%d tags in the stream (in order %r) but connections announced %r, closed %r, listed %r' % (
                len(want), want, opened, closed, [c.name() for c in s.cm.connections()]), case)
            continue
        for i, e in enumerate(entries):
            for kk, p in per.get(i, []):
                it = outline.parse_line(p)
                if kk == 'out' and it['kind'] == 'msg' and it['conn'] not in (names[e['ci']], ''):
                    ctx.violation('late-wrong-connection', 'line %d of tag <%s> (connection %s) shown as %r' % (i, e['tag'], names[e['ci']], it['text'][:160]), dict(case, first_bad_line=i))
                    break
        for ci, name in names.items():
            c = [x for x in s.cm.connections() if x.name() == name][0]
            if len(c.messages()) != sum(1 for e in entries if e['ci'] == ci):
                ctx.violation('late-message-count', 'connection %s recorded %d messages, %d lines carry its tag' % (name, len(c.messages()), sum(1 for e in entries if e['ci'] == ci)), case)
                break


def run(ctx, spec):
    if spec.get('mode') == 'gdb':
        from . import c15
        env.setup(spec)
        cands = wlxml.shipped(env.REPO)
        for i in range(spec['n']):
            c15.run_one(ctx, ctx.rng, cands, spec, 'A')
            ctx.count('gdb_mode_sequences')
            if ctx.out_of_time():
                break
        return
    env.setup()
    cands = wlxml.shipped(env.REPO)
    if 'api_ops' in spec:
        return
    run_streams(ctx, spec, cands)
    run_late(ctx, spec, cands)
    run_api(ctx, spec, cands)
    for k, v in contracts.COUNTS.items():
        ctx.count('contract_' + k, v)


def finalize(m):
    out = []
    if m['counters'].get('contract_manager_invariant', 0) == 0:
        out.append('manager invariant hook never evaluated')
    if m['counters'].get('max_connections', 0) < 27 and m['counters'].get('streams', 0) >= 100:
        out.append('no stream with names past Z')
    return out


def replay(ctx, case):
    if 'full_events' in case:
        from . import c15
        return c15.replay(ctx, case)
    env.setup()
    if 'api_ops' in case:
        replay_api(ctx, case['api_ops'])
    else:
        objcheck.replay_lines(ctx, case, WANT)


def replay_api(ctx, ops):
    contracts.install()
    from core import ConnectionManager, matcher
    from core.output import Output, stream
    from frontends.tui import Controller
    from backends.libwayland_debug_output import parse
    env.reset_globals(False)
    cm = ConnectionManager()

    class Rec(stream.Base):
        def override_write(self, string):
            print('   OUT', string)
    Controller(Output(False, True, Rec(), Rec()), cm, matcher.always, matcher.never)
    nid = {}
    for op in ops:
        print('OP', op)
        try:
            if op[0] == 'open':
                cm.open_connection(0.0, op[1], op[2] if len(op) > 2 else None)
                nid[op[1]] = 2
            elif op[0] == 'close':
                cm.close_connection(0.0, op[1])
            else:
                _, msg = parse.message('[1.000]  -> wl_display@1.sync(new id wl_callback@%d)' % nid[op[1]])
                nid[op[1]] += 1
                cm.message(op[1], msg)
        except Exception as e:
            print('   EXC', type(e).__name__, e)
            ctx.violation('api-exception', repr(e), {'api_ops': ops})
            break
    for kind, msg in contracts.drain():
        ctx.violation(kind, msg, {'api_ops': ops})
