"""C02 - every object mention is attributed to the right incarnation of its id.
History + executable reference model: well-formed histories from vlib/history.py run through the real pipeline; every
line shown must equal the line the ground truth predicts (type@id+letters of target, object and new-id arguments,
delete_id subject), Connection.messages() must record the same incarnations, the object table must have the model's
shape, and structural invariants are asserted on ConnectionImpl.db after every message."""
import re
from .. import wlxml, streams, objcheck, env, contracts

PROPERTY = 'C02'
WANT = ('C02',)
RULE = ('single-connection well-formed histories (client- and server-side renderings, both dialects, tagged or not) of 60..2000 '
        'messages from the XML-driven simulator: lowest-free client ids (maximal reuse), server-range ids reused without '
        'delete_id, creations by request/event/bind, interfaces unknown to the XML, mentions and targets after destruction. '
        'distinct = hash of the line sequence; non-trivial = history with at least one id reused')
ASSUMPTIONS = ['vlib/history.py ground truth; every history passes an independent well-formedness validator before use',
               'messages whose display would be ambiguous between same-version XML candidates are not generated']
REQUIRED = ['core/connection_impl.py:ConnectionImpl.create_object', 'core/connection_impl.py:ConnectionImpl.retrieve_object',
            'core/wl/message.py:Message.resolve', 'core/wl/arg.py:Arg.Object.resolve', 'core/wl/object.py:ObjectBase.id_str']


def plan(tier, seed):
    if tier == 'quick':
        return [{'n': 30, 'len': [60, 700]} for _ in range(16)]
    return [{'n': 150, 'len': [60, 2000]} for _ in range(64)]


def one(ctx, rng, cands, spec, want, k=1, deep=False):
    if deep:
        # one id pushed through > 1024 incarnations (labels past 'amj'), everything on very few ids
        # (quick: past 4096 incarnations; thorough: past 32768 - a client rendering at 60 fps gets there in nine minutes)
        st = streams.build(rng, cands, k=1, n_each=13400 if ctx.tier == 'quick' else 100500, tagged=False,
                           opts={'hot': 1.0, 'reuse_bias': 1.0, 'prompt_delete': 1.0, 'first': 'get_registry', 'equal_times': 0.0, 'big_gaps': 0.0})
    else:
        st = streams.build(rng, cands, k=k, n_each=tuple(spec['len']), tagged=(rng.random() < 0.3) if k == 1 else True,
                           opts={'dead_mention': rng.choice([0.15, 0.5]), 'tie_prefix': rng.choice([0, 0, 0, 6, 15, 40]),
                                 # the printed clock may step backwards (32-bit wrap, two captures joined): attribution does not depend on it
                                 'backsteps': rng.choice([0, 0, 0, 0.04, 0.15]), 'wrap': rng.random() < 0.1},
                           t0=(2 ** 32 - rng.randint(1, 2 * 10 ** 6)) if rng.random() < 0.08 else None)
    if not deep and rng.random() < 0.1:
        # text in front of the message on the same line (a journal's stamp, a byte order mark on the first line, output the program wrote
        # without a newline): the message is still the message
        kind = rng.choice(['journal', 'bom', 'tag', 'partial'])
        for j, e in enumerate(st['entries']):
            pre = {'journal': '[%12.6f] host app[812]: ' % (5.0 + j * 0.01), 'bom': '\ufeff' if j == 0 else '', 'tag': 'stderr| ',
                   'partial': 'saving state... ' if j % 7 == 3 else ''}[kind]
            e['line'] = pre + e['line']
        ctx.count('streams_with_text_before_the_message')
    s, probs = objcheck.run_stream(ctx, st, want=want)
    ctx.ev(len(st['entries']))
    stats = {}
    for sim in st['sims']:
        for a, b in sim.stats.items():
            stats[a] = max(stats.get(a, 0), b) if a == 'max_depth' else stats.get(a, 0) + b
    for a, b in stats.items():
        if a == 'max_depth':
            ctx.counters['max_incarnation_depth'] = max(ctx.counters.get('max_incarnation_depth', 0), b)
        else:
            ctx.count('sim_' + a, b)
    ctx.count('histories')
    ctx.count('messages', len(st['entries']))
    if stats.get('reuse', 0) > 0:
        ctx.sig(runner_hash(st))
    ctx.setadd('interleavings', runner_hash([e['ci'] for e in st['entries']]))
    objcheck.report(ctx, st, probs)
    if ctx.samples == [] or (len(ctx.samples) < 2 and rng.random() < 0.2):
        ctx.sample({'first_lines': [e['line'] for e in st['entries'][:4]], 'messages': len(st['entries']), 'sim_stats': stats})
    return st


def runner_hash(x):
    from ..runner import h64
    return h64([e['line'] for e in x['entries']] if isinstance(x, dict) else x)


def other_interpreter_settings(ctx, rng, cands):
    """attribution does not depend on how the interpreter was started: the same history through `main.py -l` in fresh
    processes under PYTHONOPTIMIZE (asserts compiled away) / -X dev / a different hash seed shows the lines this process shows"""
    import os
    import subprocess
    import tempfile
    from ..session import Session
    from .. import outline
    st = streams.build(rng, cands, k=2, n_each=(30, 80), tagged=True, opts={'hot': 0.3})
    lines = [e['line'] for e in st['entries']]
    s = Session()
    s.feed([l + '\n' for l in lines])
    ref = [outline.strip_sgr(p) for k, p in s.events if k == 'out']
    d = tempfile.mkdtemp(prefix='verif-c02-')
    try:
        fn = os.path.join(d, 'h.log')
        with open(fn, 'w', encoding='utf-8') as f:
            f.write('\n'.join(lines) + '\n')
        for extra in ({'PYTHONOPTIMIZE': '1'}, {'PYTHONOPTIMIZE': '2'}, {'PYTHONHASHSEED': str(rng.randint(1, 10 ** 6))}):
            e2 = dict({k: v for k, v in os.environ.items() if k not in ('PYTHONHASHSEED', 'PYTHONDONTWRITEBYTECODE')}, LC_ALL='C.UTF-8', PYTHONDONTWRITEBYTECODE='1', **extra)
            r = subprocess.run(['/venv/bin/python', os.path.join(env.REPO, 'main.py'), '-C', '-l', fn], input=b'quit\n', stdout=subprocess.PIPE, stderr=subprocess.PIPE, timeout=300, env=e2)
            got = [re.sub(r'^wl debug \$ ', '', l) for l in r.stdout.decode('utf-8', 'replace').split('\n') if l and l != 'wl debug $ ']
            ctx.ev()
            ctx.count('processes_under_other_interpreter_settings')
            if got != ref:
                j = next((j for j in range(min(len(got), len(ref))) if got[j] != ref[j]), min(len(got), len(ref)))
                ctx.violation('attribution', 'under %r `main.py -l` shows %r where this process shows %r (exit %d)' % (extra, got[j:j + 1], ref[j:j + 1], r.returncode),
                              dict(objcheck.case_of(st), interpreter_env=extra))
                return
    finally:
        import shutil
        shutil.rmtree(d, ignore_errors=True)


def run(ctx, spec):
    env.setup()
    cands = wlxml.shipped(env.REPO)
    if spec.get('shard') == 2:
        other_interpreter_settings(ctx, ctx.rng, cands)
    if spec.get('shard') == 1:
        # the object table driven directly: 70 000 incarnations of one id (quick), 1 100 000 (thorough)
        objcheck.deep_table(ctx, 70000 if ctx.tier == 'quick' else 1100000)
    if spec.get('shard') == 0:
        one(ctx, ctx.rng, cands, spec, WANT, deep=True)
    for i in range(spec['n']):
        one(ctx, ctx.rng, cands, spec, WANT)
        if ctx.out_of_time():
            break
    for k, v in contracts.COUNTS.items():
        ctx.count('contract_' + k, v)


def finalize(m):
    out = []
    if m['counters'].get('contract_db_invariant', 0) == 0:
        out.append('object-table invariant hook never evaluated')
    if m['counters'].get('sim_reuse', 0) == 0:
        out.append('no id reuse generated')
    return out


def replay(ctx, case):
    env.setup()
    if 'deep_table' in case:
        return objcheck.deep_table(ctx, case['deep_table'])
    objcheck.replay_lines(ctx, case, WANT)
