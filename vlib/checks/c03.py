"""C03 - object lifetimes: alive from creation to delete_id, never resurrected.
Same workloads as C02, separate checker: destroyed annotations, lifespans (Decimal arithmetic on the log text, one unit
of the last digit), alive sets (final and, through a hook between lines, after every message), resurrection watch on
ObjectBase.alive, at most one alive incarnation per id."""
from .. import wlxml, streams, objcheck, env, contracts, history
from . import c02

PROPERTY = 'C03'
WANT = ('C03',)
RULE = c02.RULE + '; timestamps non-decreasing with equal times, sub-0.1ms gaps, second- and hour-long gaps; GDB-mode event sequences (the plugin on the simulated gdb, as in C15) judged on the object references of every displayed line'
ASSUMPTIONS = c02.ASSUMPTIONS + ['lifespan tolerance: one unit of the fourth decimal (binary float rounding)']
REQUIRED = ['core/wl/message.py:Message.resolve', 'core/wl/object.py:ObjectBase.destroy', 'core/wl/object.py:ObjectBase.lifespan',
            'core/connection_impl.py:ConnectionImpl.create_object']


def plan(tier, seed):
    # mode gdb: the same lifetimes where nothing but the closures of a live program feeds the table - the GDB plugin (tier A of C15: the
    # real plugin on the ctypes inferior), with connections whose first object id 2 is not the registry, released and handed out again
    if tier == 'quick':
        return [{'n': 30, 'len': [60, 600]} for _ in range(16)] + [{'mode': 'gdb', 'n': 40, 'gdb_shim': True, 'len': [20, 150]} for _ in range(2)]
    return [{'n': 150, 'len': [60, 2000]} for _ in range(64)] + [{'mode': 'gdb', 'n': 300, 'gdb_shim': True, 'len': [20, 300]} for _ in range(6)]


def run(ctx, spec):
    if spec.get('mode') == 'gdb':
        from . import c15
        env.setup(spec)
        cands = wlxml.shipped(env.REPO)
        for i in range(spec['n']):
            c15.run_one(ctx, ctx.rng, cands, spec, 'A', objects_only=True)
            ctx.count('gdb_mode_sequences')
            if ctx.out_of_time():
                break
        return
    env.setup()
    cands = wlxml.shipped(env.REPO)
    if spec.get('shard') == 1:
        # the object table driven directly: 70 000 incarnations of one id (quick), 1 100 000 (thorough)
        objcheck.deep_table(ctx, 70000 if ctx.tier == 'quick' else 1100000)
    rng = ctx.rng
    for i in range(spec['n'] + (1 if spec.get('shard') == 0 else 0)):
        if i == spec['n']:
            st = streams.build(rng, cands, k=1, n_each=3600, tagged=False, opts={'hot': 1.0, 'reuse_bias': 1.0, 'prompt_delete': 1.0, 'first': 'get_registry'})
        else:
            st = streams.build(rng, cands, k=1, n_each=tuple(spec['len']), tagged=rng.random() < 0.3,
                               opts={'dead_mention': rng.choice([0.15, 0.5]), 'equal_times': rng.choice([0.2, 0.6]),
                                     'big_gaps': rng.choice([0.1, 0.4]), 'tie_prefix': rng.choice([0, 0, 0, 6, 15, 40]),
                                     'backsteps': rng.choice([0, 0, 0, 0.04, 0.15]), 'wrap': rng.random() < 0.1},
                               t0=(2 ** 32 - rng.randint(1, 2 * 10 ** 6)) if rng.random() < 0.08 else None)
        api = i % 4 == 3 and i != spec['n']
        if api:
            # two connections one after the other under one connection id (GDB mode: an address used again)
            st = streams.build(rng, cands, k=2, n_each=(30, 200), tagged=True, interleave='first',
                               opts={'dead_mention': rng.choice([0.15, 0.5]), 'equal_times': rng.choice([0.2, 0.6]), 'big_gaps': 0.1})
            ctx.count('histories_with_reused_connection_id')
        entries = st['entries']
        online = []

        def before_read(sess, i, entries=entries, online=online):
            # alive set after every message, observed between two reads (as a user at the prompt would)
            if i == 0 or i > len(entries) or online:
                return
            conns = sess.cm.connections()
            if not conns:
                return
            c = conns[-1] if entries[i - 1]['ci'] else conns[0]
            got = sorted([ob.id, ob.generation] for lst in c.db.values() for ob in lst if ob.alive)
            want = entries[i - 1]['rec']['gt']['alive']
            if got != want:
                online.append((i - 1, [x for x in got if x not in want][:5], [x for x in want if x not in got][:5]))
        orig_feed = None
        # run with the hook
        from ..session import Session
        import types
        s, probs = run_with_hook(ctx, st, before_read, api)
        ctx.ev(len(entries))
        ctx.count('alive_set_comparisons', len(entries))
        if online:
            idx, only_tool, only_model = online[0]
            probs.append(('C03', 'alive-after-message', 'after line %d (%r) alive only in tool %r, only in model %r' % (
                idx, entries[idx]['line'][:120], only_tool, only_model), idx))
        sim = st['sims'][0]
        for a, b in (sim.stats.items() if not api else []):
            if a == 'max_depth':
                ctx.counters['max_incarnation_depth'] = max(ctx.counters.get('max_incarnation_depth', 0), b)
            else:
                ctx.count('sim_' + a, b)
        ctx.count('histories')
        if sim.stats['delete_ids'] > 0:
            ctx.sig(c02.runner_hash(st))
        objcheck.report(ctx, st, probs, {'api_reuse': [e['ci'] for e in entries]} if api else None)
        if len(ctx.samples) < 2:
            d = [e['line'] for e in entries if e['rec']['gt']['destroyed']][:2]
            ctx.sample({'delete_id_lines': d, 'messages': len(entries), 'sim_stats': sim.stats})
        if ctx.out_of_time():
            break
    for k, v in contracts.COUNTS.items():
        ctx.count('contract_' + k, v)


def run_with_hook(ctx, st, before_read, api=False):
    if api:
        return objcheck.run_stream(ctx, st, want=WANT, api_reuse=True, before_read=before_read)
    """objcheck.run_stream with a before_read hook on the scripted input"""
    from .. import session
    orig = session.Session.feed

    def feed(self, lines, hooks=None, cleanup=True, before_read_=None):
        return orig(self, lines, hooks=hooks, cleanup=cleanup, before_read=before_read)
    session.Session.feed = feed
    try:
        return objcheck.run_stream(ctx, st, want=WANT)
    finally:
        session.Session.feed = orig


def finalize(m):
    out = []
    if m['counters'].get('contract_alive_writes', 0) == 0:
        out.append('alive watch never evaluated (ObjectBase.alive is not a plain instance attribute any more?)')
    if m['counters'].get('sim_delete_ids', 0) == 0:
        out.append('no delete_id generated')
    return out


def replay(ctx, case):
    if 'full_events' in case:
        from . import c15
        return c15.replay(ctx, case)
    env.setup()
    if 'deep_table' in case:
        return objcheck.deep_table(ctx, case['deep_table'])
    objcheck.replay_lines(ctx, case, WANT)
