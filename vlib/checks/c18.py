"""C18 - no input makes the tool fail with an unhandled error.
Totality fuzzing with monitors:
 (log)      mutated / random text as a log through the real in-process pipeline: nothing escapes Parser.parse_all /
            cleanup; every `New ... connection X` is followed by exactly one `Closed ... connection X` at the end;
 (matcher)  matcher.parse(t) raises nothing but RuntimeError; an accepted matcher survives simplify(), matches(m) on
            every universe message, str() and repr();
 (command)  Controller.process_command(line) raises nothing and answers: something on out or err, or a
            resume/quit request (those two answer by acting);
 (process)  real main.py processes in file / pipe / run mode on byte strings incl. undecodable bytes, NULs, lone \\r, very
            long lines, under C.UTF-8 and POSIX locales: exit status 0 (the child's in run mode), no Python traceback,
            every opened connection reported closed."""
import json
import os
import re
import subprocess
import tempfile

from .. import wlxml, streams, env, outline
from ..session import Session
from ..runner import h64

PROPERTY = 'C18'
RULE = ('logs: line/token/byte mutations (bit flips, splices, truncations, duplications, interleavings, huge numbers, id 0, NUL, lone CR, '
        '10-100 kB lines) of generated multi-connection streams and of the shipped real logs, plus random printable and binary text; '
        'matchers: token-level mutations of documented examples over []()!,.:=@#*" words and unicode; commands: command names / '
        'abbreviations / w / wl prefixes with mutated arguments against session states empty, loaded, selected connection, all closed; '
        'processes: -l, -p, -r x {C.UTF-8, POSIX}. distinct = hash of the input; non-trivial = input that differs from every seed')
ASSUMPTIONS = ['bounded by the mutators above; coverage-guided fuzzing is not used']
REQUIRED = ['backends/libwayland_debug_output/parse.py:Parser.parse_all', 'core/matcher.py:parse', 'frontends/tui/controller.py:Controller.process_command',
            'frontends/tui/controller.py:Controller._get_command']

DOC_MATCHERS = ['wl_surface', 'xdg_*', '5', '4b', '.commit', 'wl_surface.commit', 'B: .commit', 'wl_pointer(pressed)', 'wl_pointer(buffer=)', '.(nil)',
                '.new', 'wl_surface.new', '.destroyed', '10.destroyed', 'wl_pointer, .commit', 'wl_pointer, wl_touch ! .motion ', 'xdg_* ! xdg_popup, .get_popup',
                '(x=0, y=0)', '55a.[motion, axis]', '[wl_pointer ! 55, 62].motion', '([x=0, y=0])', '*', '!', 'A: wl_pointer, wl_surface.[commit, destroy]',
                'wl_pointer.[! motion, frame]', '! wl_callback, .frame', '.set_title("my app")', '(1.5)', '(-3)', '@5b', '.(@5b)', '(x=[1, 2 ! 3])', 'wl_surface@', '#5',
                '(n*=1)', '([x, n*]=1)', '(*e=nil)', '(*=*)', '(*id=5b)', '.(x*=)', '(*=)', '.*(*a*=*s*)', '[*].[*]([*]=[*])', 'w*.s*(n*="s")', '(na*e=1.5)', '(! n*=1)',
                '*: *.*(*)', '[A, *]: x*', '(?=1)', '(**=1)', '.(*=fd)', '(*=new)',
                # many wildcards in one word (D15: each `*` used to become a `.*` regex group)
                '*******************0*****', '*a*b*c*d*e*f*g*h*i*j*k*l*m*n*o*p*0', 'w*l*_*s*u*r*f*a*c*e*0', '.*_*_*_*_*_*_*_*_*_*_*_*_*_*_*_*_*_*_*_*0',
                '(*a*a*a*a*a*a*a*a*a*a*a*a*a*a*a*a*a*a*a*a*a*a*a*a*a*a*a*a*0=1)', '(x=*x*x*x*x*x*x*x*x*x*x*x*x*x*x*x*x*x*x*x*x*x*x*x*y)']
TOKENS = ['7' * 4400, '-' + '9' * 5000, '[' * 300, '(' * 300, '[' * 300 + 'x' + ']' * 300, '(' * 200 + ')' * 200, '1e999', '-1e999', 'infinity', '[', ']', '(', ')', '!', ',', '.', ':', '=', '@', '#', '*', '"', ' ', '~', '-', '\\', "'", '\x1b[31m', '\x1b[0m', '\t', 'nil', 'new', 'destroyed', 'żółć', '日本', '0', '007', '1e9',
          'inf', 'nan', '1_0', '99999999999999999999999', '12\u0130', '3\u212a', '5\u00b2', '\uff11\uff12', '7\u017f', '4\u00df', '2\u0131', '@3\u0130', '6\u01c5', '8\ufb01', '\u0661\u0662', '9\u0345', '1\u1e9e', 'a' * 300, '\x00', '%s', '{', '}', '..', '::', '((', '))', '[[', ']]', '""', 'unknown', 'A', 'wl_display', '1a', 'zz']
COMMANDS = ['help', 'list', 'filter', 'breakpoint', 'matcher', 'connection', 'resume', 'quit', 'h', 'l', 'f', 'b', 'm', 'c', 'r', 'q', 'w', 'wl', 'wlh', 'wll', 'wlf', 'wlb', 'wlm',
            'wlc', 'wlr', 'wlq', 'wayland', 'he', 'li', 'fi', 'br', 'ma', 'co', 're', 'qu', 'x', '', 'LIST', 'wlwl', 'wl wl', 'w w w', '\x1b[93mhelp\x1b[0m']


def plan(tier, seed):
    if tier == 'quick':
        return ([{'mode': 'log', 'n': 200} for _ in range(5)] + [{'mode': 'matcher', 'n': 8000} for _ in range(5)] +
                [{'mode': 'command', 'n': 5000} for _ in range(4)] + [{'mode': 'process', 'n': 24, 'fixed_probes': i == 0} for i in range(4)])
    return ([{'mode': 'log', 'n': 2500} for _ in range(20)] + [{'mode': 'matcher', 'n': 80000} for _ in range(20)] +
            [{'mode': 'command', 'n': 40000} for _ in range(16)] + [{'mode': 'process', 'n': 120, 'fixed_probes': i == 0} for i in range(8)])


# ------------------------------------------------------------------------------------------------- generators

def seed_lines(rng, cands):
    k = rng.choice([1, 2, 3])
    st = streams.build(rng, cands, k=k, n_each=(10, 40), tagged=(k > 1 or rng.random() < 0.3))
    lines = [e['line'] for e in st['entries']]
    if rng.random() < 0.3:
        d = os.path.join(env.REPO, 'resources', 'libwayland_debug_logs')
        fn = rng.choice(sorted(os.listdir(d)))
        real = open(os.path.join(d, fn), encoding='utf-8', errors='replace').read().split('\n')
        if len(real) > 5:
            a = rng.randrange(len(real) - 5)
            lines += real[a:a + rng.randint(5, 60)]
    return lines


def mutate_text(rng, s):
    if not s:
        return rng.choice(TOKENS)
    r = rng.random()
    i = rng.randrange(len(s))
    j = min(len(s), i + rng.randint(1, 8))
    if r < 0.15:
        return s[:i] + s[j:]
    if r < 0.3:
        return s[:i] + rng.choice(TOKENS) + s[i:]
    if r < 0.4:
        return s[:i] + s[i:j] * rng.randint(2, 5) + s[j:]
    if r < 0.5:
        return s[:i] + chr(rng.choice([0, 1, 9, 13, 27, 127, 0xa0, 0x2028, 0xfffd, 0x10ffff, rng.randint(32, 126)])) + s[i + 1:]
    if r < 0.6:
        return re.sub(r'\d+', lambda m: rng.choice(['0', '1', '4294967296', '99999999999999999999', '-1', m.group(0) + '0']), s, count=1)
    if r < 0.7:
        return s[:i]
    if r < 0.8:
        return s[i:]
    if r < 0.9:
        return s.replace(rng.choice(['@', '#', '(', ')', ',', '.', ' ', '[', ']']), rng.choice(TOKENS), 1)
    return s + rng.choice(TOKENS)


def mutate_lines(rng, lines):
    lines = list(lines)
    for _ in range(rng.randint(1, 12)):
        r = rng.random()
        if not lines:
            lines.append('')
        i = rng.randrange(len(lines))
        if r < 0.5:
            lines[i] = mutate_text(rng, lines[i])
        elif r < 0.6:
            del lines[i]
        elif r < 0.7:
            lines.insert(i, lines[rng.randrange(len(lines))])
        elif r < 0.8:
            j = rng.randrange(len(lines))
            lines[i], lines[j] = lines[j], lines[i]
        elif r < 0.88:
            lines[i] = lines[i] + lines[rng.randrange(len(lines))]          # two lines glued
        elif r < 0.94:
            lines[i] = (lines[i] * rng.choice([2, 50, 400]))[:100000]        # very long line (bounded: 100 kB)
        else:
            lines.insert(i, ''.join(chr(rng.randint(1, 0x2ff)) for _ in range(rng.randint(0, 80))))
    return lines


# ------------------------------------------------------------------------------------------------- log mode (in-process)

def check_closed(events):
    """every opened connection reported closed exactly once, at the end"""
    opened, closed = [], []
    for k, p in events:
        if k == 'out':
            it = outline.parse_line(outline.strip_sgr(p))
            if it['kind'] == 'notice' and outline.strip_sgr(p) == it['text']:
                (opened if it['what'] == 'New' else closed).append(it['conn'])
    return opened, closed


def run_log(ctx, spec):
    env.setup()
    cands = wlxml.shipped(env.REPO)
    rng = ctx.rng
    for n in range(spec['n']):
        base = seed_lines(rng, cands)
        lines = mutate_lines(rng, base)
        lines = [l.replace('\n', ' ') for l in lines]
        for _ in range(rng.choice([0, 0, 1, 2])):
            # a connection whose very first line cannot be resolved (log attached late): it must still be opened AND closed
            lines.insert(rng.randrange(len(lines) + 1), rng.choice(['[1.000] <%d> wl_display@1.delete_id(7)', '[   2.000] <%d>  -> wl_surface#9.commit()',
                                                                  '[3.0] <%d> wl_registry@2.bind(1, "x")']) % rng.randint(600, 900))
        sup = rng.random() < 0.3
        case = {'log_lines': lines, 'supress': sup}
        ctx.ev()
        if lines != base:
            ctx.sig(h64(lines))
        try:
            s = Session(show_unprocessed=not sup)
            s.feed([l + '\n' for l in lines[:-1]] + ([lines[-1]] if lines else []))
        except BaseException as e:
            import traceback
            ctx.violation('log-exception', '%s: %r escaped the log pipeline' % (type(e).__name__, e), case, tb=traceback.format_exc()[-1200:])
            continue
        reads = [p for k, p in s.events if k == 'read']
        if not any(k == 'eof' for k, p in s.events):
            ctx.violation('not-consumed', 'the reader stopped after line %d of %d: the rest of the input was never read%s' % (
                (reads[-1] + 1) if reads else 0, len(lines), ' (after an internal error)' if any(k == 'out' and 'Traceback' in p for k, p in s.events) else ''), case)
            continue
        opened, closed = check_closed(s.events)
        # pass-through text may itself look like a notice: only count notices that are not pass-through (no prefix) - done by
        # parse_line; a log line that IS the text of a notice would be passed through with the prefix, so no confusion
        if sorted(opened) != sorted(closed):
            ctx.violation('connection-not-closed', 'opened %r, closed %r' % (opened, closed), case)
        internal = sum(1 for k, p in s.events if k == 'out' and 'Traceback (most recent call last)' in p)
        if internal:
            ctx.count('internal_errors_handled_by_parser', internal)
            ctx.setadd('show:internal_error_kinds', [p.strip().split('\n')[-1][:80] for k, p in s.events if k == 'out' and 'Traceback' in p][0])
        ctx.count('log_inputs')
        if n % 3 == 0:
            # the unmutated seed (well-formed simulator output + a slice of a real log) in the same process: here the reader's
            # last-resort handler (traceback, decoding abandoned for the rest of the log) has nothing to excuse it
            s = Session(show_unprocessed=not sup)
            try:
                s.feed([l + '\n' for l in base])
            except BaseException as e:
                ctx.violation('log-exception', '%s: %r escaped the log pipeline on a well-formed log' % (type(e).__name__, e), {'log_lines': base, 'supress': sup})
                continue
            tb = [p for k, p in s.events if k == 'out' and 'Traceback (most recent call last)' in p]
            opened, closed = check_closed(s.events)
            ctx.count('wellformed_logs')
            if tb or not opened or sorted(opened) != sorted(closed):
                ctx.violation('wellformed-log-abandoned', 'a well-formed log (session %d of this process): %s' % (
                    n + 1, ('decoding abandoned after ' + tb[0].strip().split('\n')[-1][:160]) if tb else 'opened %r, closed %r' % (opened, closed)),
                    {'log_lines': base, 'supress': sup, 'session_no': n + 1})
        if n == 0:
            ctx.sample({'log_head': lines[:4]})
    if spec.get('shard') == 0:
        check_scaling(ctx)


def check_scaling(ctx):
    """bounded progress instead of an unbounded 'consumed to the end': decoding a line with 4x the arguments must not
    cost more than ~10x the CPU time (linear = 4x, quadratic = 16x).  CPU time of this process, three attempts; only a
    ratio that is superlinear in all three is reported."""
    import time
    from backends.libwayland_debug_output import parse
    ratios = []
    for attempt in range(3):
        ts = []
        for n in (25000, 100000):
            line = '[1.000] a@1.b(' + ', '.join(['12345'] * n) + ')'
            t = time.process_time()
            parse.message(line)
            ts.append(time.process_time() - t)
        ratios.append(ts[1] / max(ts[0], 1e-6))
        if ratios[-1] < 10:
            break
    ctx.count('scaling_checks')
    ctx.setadd('show:arglist_cpu_ratio_4x_input', '%.1f' % min(ratios))
    if min(ratios) >= 10:
        ctx.violation('superlinear-argument-list', 'a line with 4x the arguments costs %.1fx the CPU time (three attempts: %r): a long line stalls the tool' % (
            min(ratios), ['%.1f' % r for r in ratios]), {'scaling': True})


# ------------------------------------------------------------------------------------------------- matchers

def gen_matcher_text(rng):
    r = rng.random()
    if r < 0.1:
        return ''.join(rng.choice(TOKENS) for _ in range(rng.randint(0, 12)))
    t = rng.choice(DOC_MATCHERS)
    for _ in range(rng.choice([0, 1, 1, 2, 3, 6])):
        t = mutate_text(rng, t)
    if rng.random() < 0.15:
        t = t + rng.choice([', ', ' ! ', '.', ':', '(']) + rng.choice(DOC_MATCHERS)
    if rng.random() < 0.2:
        # wildcards inside any word (names of arguments included)
        words = list(re.finditer(r'[A-Za-z_]{2,}', t))
        if words:
            w = rng.choice(words)
            a = rng.randint(w.start(), w.end() - 1)
            b = rng.randint(a, w.end())
            t = t[:a] + '*' + t[b:]
    return t


ITEM_CPU_BUDGET_S = 20.0    # CPU seconds (of the worker process, so load on the machine does not count) for ONE matcher text of <= 200
                            # characters to be parsed, simplified, printed and evaluated on ~100 messages, or for one command line of
                            # <= 200 characters; the ordinary cost is well under a millisecond.  Enforced by the runner (Ctx.heartbeat).


def run_matcher(ctx, spec):
    env.setup()
    from core import matcher
    cands = wlxml.shipped(env.REPO)
    rng = ctx.rng
    st = streams.build(rng, cands, k=2, n_each=(30, 60), tagged=True)
    s = Session()
    # include ill-formed lines so that unresolved objects / unknown arguments / untyped objects are in the universe
    lines = [e['line'] for e in st['entries']]
    lines += ['[1.0] <%d>  -> zz_q@777.frob(new id [unknown]@778, nil, wl_what@999, ???, "s", 1.5, fd 3, array)' % st['tags'][0],
              '[1.0] <%d> wl_display@1.delete_id(424242)' % st['tags'][0],
              '[1.0] <%d> zz_q@777.odd(1e999, -1e999, 1e-999, %s, -%s, 0.0, -0.0, 1e308, fd 99999999999999999999)' % (st['tags'][0], '9' * 400, '9' * 400),
              '[1.0] <%d> zz_q@778.odd2("", "%s", nil, nil)' % (st['tags'][0], 'x' * 5000)]
    s.feed([l + '\n' for l in lines])
    msgs = list(s.ctl.all_messages)
    accepted = 0
    for n in range(spec['n']):
        t = gen_matcher_text(rng)
        ctx.ev()
        case = {'matcher': t}
        ctx.heartbeat(case if len(t) <= 200 else None, 'matcher-eval-unbounded', 'parsing the matcher %r and evaluating it on %d messages' % (t, len(msgs)))
        try:
            m = matcher.parse(t)
        except RuntimeError:
            ctx.count('matchers_rejected')
            continue
        except BaseException as e:
            ctx.violation('matcher-parse-exception', 'parse(%r) raised %s: %r' % (t, type(e).__name__, e), case)
            continue
        accepted += 1
        ctx.sig(h64(t))

        try:
            str(m), repr(m)
            ms = m.simplify()
            str(ms), repr(ms)
            for x in msgs:
                ms.matches(x)
            ctx.heartbeat(None)
        except BaseException as e:
            import traceback
            ctx.violation('matcher-eval-exception', 'accepted matcher %r: %s: %r' % (t, type(e).__name__, e), case, tb=traceback.format_exc()[-800:])
            continue
        if n == 0:
            ctx.sample({'matcher': t})
    ctx.count('matchers_accepted', accepted)


# ------------------------------------------------------------------------------------------------- commands

def gen_command(rng, names):
    r = rng.random()
    c = rng.choice(COMMANDS)
    if r < 0.2:
        return c
    arg = rng.choice([gen_matcher_text(rng), rng.choice(names + ['all', 'bogus', '']), '~ ' + str(rng.randint(-3, 9)), '~ ' + rng.choice(['inf', '-inf', 'nan', '1e999', '1e3', '2.5', '9' * 5000, '0x10', '١٢', '+x', '+', '+5', '-', '--1', '1 2', ' ', '~', '5~']), gen_matcher_text(rng) + ' ~ ' + rng.choice(['1', 'x', '', '-1', '1 ~ 2']),
                      rng.choice(COMMANDS), ''.join(rng.choice(TOKENS) for _ in range(rng.randint(0, 6)))])
    line = c + rng.choice([' ', '  ', '\t', '']) + arg
    if rng.random() < 0.1:
        line = mutate_text(rng, line)
    return line[:200]


def run_command(ctx, spec):
    env.setup()
    cands = wlxml.shipped(env.REPO)
    rng = ctx.rng
    sessions = []
    for state in ('empty', 'loaded', 'selected', 'closed'):
        s = Session()
        names = ['A']
        if state != 'empty':
            st = streams.build(rng, cands, k=2, n_each=(20, 40), tagged=True)
            names = list(st['names'].values())
            s.feed([e['line'] + '\n' for e in st['entries']], cleanup=(state == 'closed'))
            if state == 'selected':
                s.command('connection ' + names[0])
        sessions.append((state, s, names, []))
    for n in range(spec['n']):
        state, s, names, recent = rng.choice(sessions)
        line = gen_command(rng, names)
        if n % 400 == 7:
            # a matcher nested deeper than the interpreter's stack is just another command line that cannot be used
            k = rng.choice([150, 300, 450, 600, 900, 1200, 3000])
            inner = rng.choice(['x', '! x', 'x, y', '"s"', ''])
            line = rng.choice(['filter', 'f', 'breakpoint', 'b', 'list', 'matcher', 'l']) + ' ' + rng.choice([
                '[' * k + inner + ']' * k, '[' * k + inner, 'x(' + '[' * k + inner + ']' * k + ')', '[' * k + 'x' + ']' * k + ' ~ 3', '(' * k + ')' * k])
            ctx.count('deeply_nested_matcher_commands')
        # the quantifier is over PRINTABLE command lines (coloured input is C17's subject): drop control characters
        line = ''.join(ch if (ch.isprintable() or ch == '\t') else ' ' for ch in line)
        ctx.ev()
        ctx.sig(h64([state, line]))
        n0 = len(s.events)
        case = {'command': line, 'state': state, 'prior': list(recent)}
        recent.append(line)
        del recent[:-6]
        ctx.heartbeat(case, 'command-unbounded', 'the command %r (state %s)' % (line, state))
        try:
            s.command(line)
            ctx.heartbeat(None)
        except BaseException as e:
            import traceback
            ctx.violation('command-exception', 'in state %s, %r raised %s: %r' % (state, line, type(e).__name__, e), case, tb=traceback.format_exc()[-800:])
            continue
        answered = [k for k, p in s.events[n0 + 1:] if k in ('out', 'err', 'ui')]
        if not answered:
            ctx.violation('command-silent', 'in state %s, %r produced neither output nor an error nor a resume/quit request' % (state, line), case)
        ctx.setadd('answers', ','.join(sorted(set(answered))))
        if n == 0:
            ctx.sample({'command': line, 'state': state})


# ------------------------------------------------------------------------------------------------- processes

def gen_bytes(rng, cands):
    lines = mutate_lines(rng, seed_lines(rng, cands)) if rng.random() < 0.8 else seed_lines(rng, cands)
    data = '\n'.join(lines).encode('utf-8', 'surrogatepass')
    data = bytearray(data)
    for _ in range(rng.choice([0, 1, 3, 10])):
        r = rng.random()
        i = rng.randrange(len(data) + 1)
        if r < 0.4:
            data[i:i] = bytes([rng.choice([0xff, 0xfe, 0x80, 0xc3, 0xe2, 0xf0, 0x00, 0x0d, 0x1b])])
        elif r < 0.6 and data:
            data[i % len(data)] ^= 1 << rng.randrange(8)
        elif r < 0.8:
            data[i:i] = bytes(rng.randrange(256) for _ in range(rng.randint(1, 40)))
        else:
            data = data[:i]
    if rng.random() < 0.7:
        data += b'\n'
    if rng.random() < 0.5:
        # the first bytes decide what many tools take a file for: compressed containers (whole, cut short, or only the magic),
        # byte order marks, executables, scripts
        import gzip
        import bz2
        import lzma
        whole = {'gz': gzip.compress, 'bz2': bz2.compress, 'xz': lzma.compress}
        r = rng.random()
        if r < 0.5:
            z = whole[rng.choice(sorted(whole))](bytes(data))
            data = z if rng.random() < 0.3 else z[:rng.randint(2, max(2, len(z) - 1))]
        else:
            magic = rng.choice([b'\x1f\x8b', b'\x1f\x8b\x08\x00', b'BZh9', b'\xfd7zXZ\x00', b'\x28\xb5\x2f\xfd', b'PK\x03\x04', b'\xff\xfe', b'\xfe\xff',
                                b'\xef\xbb\xbf', b'\x7fELF', b'#!/bin/sh\n', b'\x00\x00\xfe\xff', b'%PDF-', b'\x89PNG\r\n\x1a\n', b'\x04\x22\x4d\x18', b'\x1f\x9d', b'\x1f\xa0'])
            data = magic + bytes(data)
    return bytes(data)


class Blocked(Exception):
    pass


def run_watched(cmd, input_bytes, env2, idle_limit=20.0, wall_limit=180.0):
    """subprocess.run with two ways out besides the normal one: the process sits IDLE (no CPU time used, blocked) for
    idle_limit seconds in a row -> Blocked; wall_limit passes -> subprocess.TimeoutExpired (decided on CPU use by the caller)"""
    import tempfile
    import time
    from ..runner import proc_cpu_s
    with tempfile.TemporaryFile() as fo, tempfile.TemporaryFile() as fe:
        p = subprocess.Popen(cmd, stdin=subprocess.PIPE, stdout=fo, stderr=fe, env=env2)
        try:
            p.stdin.write(input_bytes)
            p.stdin.close()
        except (BrokenPipeError, OSError):
            pass
        t0 = time.time()
        cpu0 = proc_cpu_s(p.pid)
        idle_since = time.time()
        while p.poll() is None:
            time.sleep(0.05 if time.time() - t0 < 2 else 0.5)
            cpu = proc_cpu_s(p.pid)
            if cpu is not None and cpu0 is not None and cpu - cpu0 < 0.02:
                if time.time() - idle_since > idle_limit:
                    p.kill()
                    p.wait()
                    raise Blocked('idle for %.0f s (%.2f s of CPU used in all)' % (idle_limit, cpu))
            else:
                idle_since = time.time()
                cpu0 = cpu
            if time.time() - t0 > wall_limit:
                p.kill()
                p.wait()
                raise subprocess.TimeoutExpired(cmd, wall_limit)
        fo.seek(0)
        fe.seek(0)
        return subprocess.CompletedProcess(cmd, p.returncode, fo.read(), fe.read())


def run_process(ctx, spec):
    env.setup()
    cands = wlxml.shipped(env.REPO)
    rng = ctx.rng
    helpers = os.path.join(os.path.dirname(os.path.dirname(os.path.abspath(__file__))), 'helpers')
    d = tempfile.mkdtemp(prefix='verif-c18-')
    try:
        import gzip
        import bz2
        import lzma
        plain = b'[1.000]  -> wl_display@1.sync(new id wl_callback@2)\n[1.001] wl_callback@2.done(7)\n'
        fixed = []
        if spec.get('fixed_probes'):
            # every run: each container format cut short and reduced to its magic, in file and pipe mode
            for comp in (gzip.compress, bz2.compress, lzma.compress):
                z = comp(plain * 20)
                for d2 in (z[:len(z) // 2], z[:4] + b'garbage\n' + plain, z):
                    for m2 in ('-l', '-p'):
                        fixed.append((d2, m2))
        for n in range(spec['n'] + len(fixed)):
            data = gen_bytes(rng, cands)
            mode = rng.choice(['-l', '-p', '-r'])
            if n < len(fixed):
                data, mode = fixed[n]
            loc = rng.choice(['C.UTF-8', 'POSIX'])
            e2 = {k: v for k, v in os.environ.items() if not k.startswith('LC_') and k not in ('LANG', 'PYTHONIOENCODING', 'PYTHONUTF8')}
            e2['LC_ALL'] = loc
            main = ['/venv/bin/python', os.path.join(env.REPO, 'main.py'), '-C']
            want_rc = 0
            import resource
            ru0 = resource.getrusage(resource.RUSAGE_CHILDREN)
            try:
                if mode == '-l' and rng.random() < 0.3:
                    # the log is not a regular file: a named pipe (what `-l <(app 2>&1)` is), written by somebody else
                    import threading
                    fn = os.path.join(d, 'in.fifo')
                    if os.path.exists(fn):
                        os.unlink(fn)
                    os.mkfifo(fn)

                    def feed(fn=fn, data=data):
                        try:
                            with open(fn, 'wb') as f:
                                f.write(data)
                        except OSError:
                            pass
                    th = threading.Thread(target=feed, daemon=True)
                    th.start()
                    try:
                        r = run_watched(main + ['-l', fn], b'quit\n', e2)
                    finally:
                        # if the tool never opened the pipe the writer is still blocked in open(): release it
                        try:
                            fd = os.open(fn, os.O_RDONLY | os.O_NONBLOCK)
                            os.close(fd)
                        except OSError:
                            pass
                        th.join(timeout=10)
                    mode = '-l'
                    ctx.count('logs_loaded_from_a_named_pipe')
                elif mode == '-l':
                    fn = os.path.join(d, 'in.log')
                    open(fn, 'wb').write(data)
                    r = subprocess.run(main + ['-l', fn], input=b'quit\n', stdout=subprocess.PIPE, stderr=subprocess.PIPE, timeout=180, env=e2)
                elif mode == '-p':
                    r = subprocess.run(main + ['-p'], input=data, stdout=subprocess.PIPE, stderr=subprocess.PIPE, timeout=180, env=e2)
                else:
                    want_rc = rng.choice([0, 0, 3])
                    planf = os.path.join(d, 'plan.json')
                    plan2 = {'report': os.path.join(d, 'rep.json'), 'stderr_chunks': [[data.hex(), 0]], 'exit': want_rc}
                    if rng.random() < 0.2:
                        plan2.update({'close_stderr': True, 'linger_ms': rng.choice([1200, 1500])})      # the program lets go of its stderr and lives on for a while
                        ctx.count('run_mode_children_closing_stderr_early')
                    with open(planf, 'w') as pf:
                        json.dump(plan2, pf)
                    e2['VERIF_CHILD_PLAN'] = planf
                    r = subprocess.run(main + ['-r', '/venv/bin/python', os.path.join(helpers, 'child.py')], input=b'quit\n', stdout=subprocess.PIPE, stderr=subprocess.PIPE, timeout=180, env=e2)
            except Blocked as e:
                ctx.violation('process-blocked', '%s under %s on %d bytes%s: the tool neither finished nor computed - %s' % (
                    mode, loc, len(data), ' arriving through a named pipe' if fn.endswith('.fifo') else '', e),
                    {'bytes_hex': data.hex() if len(data) < 200000 else data[:200000].hex(), 'mode': mode, 'locale': loc, 'want_rc': want_rc, 'fifo': True})
                continue
            except subprocess.TimeoutExpired:
                # wall-clock alone decides nothing (a loaded machine); a child that BURNT more than a minute of CPU on a few
                # kilobytes of input was not starved, it does not get through them
                ru1 = resource.getrusage(resource.RUSAGE_CHILDREN)
                cpu = (ru1.ru_utime + ru1.ru_stime) - (ru0.ru_utime + ru0.ru_stime)
                if cpu > 60:
                    ctx.violation('process-unbounded', '%s under %s: still running after 180 s, of which %.0f s CPU, on %d bytes of input' % (mode, loc, cpu, len(data)),
                                  {'bytes_hex': data.hex(), 'mode': mode, 'locale': loc, 'want_rc': want_rc})
                else:
                    ctx.inconc('process %s timed out after 180 s having used %.1f s of CPU' % (mode, cpu))
                continue
            ctx.ev()
            ctx.count('processes')
            ctx.setadd('process_configs', mode + ' ' + loc)
            ctx.sig(h64(data))
            case = {'bytes_hex': data.hex() if len(data) < 200000 else data[:200000].hex(), 'mode': mode, 'locale': loc, 'want_rc': want_rc}
            err = r.stderr.decode('utf-8', 'replace')
            out = r.stdout.decode('utf-8', 'replace')
            tb = 'Traceback (most recent call last)' in err
            if r.returncode != want_rc or tb:
                last = [l for l in err.strip().split('\n') if l][-1:] if err.strip() else []
                ctx.violation('process-abort', '%s under %s: exit %d (expected %d), stderr ends %r' % (mode, loc, r.returncode, want_rc, last), case, stderr_tail=err[-600:])
                continue
            new = re.findall(r'^(?:wl debug \$ )?New (?:client|server|unknown type) connection (\w+)$', out, re.M)
            closed = re.findall(r'^(?:wl debug \$ )?Closed (?:client|server|unknown type) connection (\w+)$', out, re.M)
            if sorted(new) != sorted(closed):
                ctx.violation('process-connection-not-closed', '%s under %s: opened %r closed %r' % (mode, loc, new, closed), case)
            if n == 0:
                ctx.sample({'mode': mode, 'locale': loc, 'bytes_head': repr(data[:120])})
    finally:
        import shutil
        shutil.rmtree(d, ignore_errors=True)


def run(ctx, spec):
    {'log': run_log, 'matcher': run_matcher, 'command': run_command, 'process': run_process}[spec['mode']](ctx, spec)


def replay(ctx, case):
    env.setup()
    if 'scaling' in case:
        check_scaling(ctx)
    elif 'log_lines' in case:
        lines = case['log_lines']
        ctx.ev()
        if case.get('session_no', 1) > 1:
            # the witness was not the first log of its process: load the same log once before
            s = Session(show_unprocessed=not case.get('supress'))
            s.feed([l + '\n' for l in lines])
            print('(an earlier session of the same process loaded the log first)')
        try:
            s = Session(show_unprocessed=not case.get('supress'))
            s.feed([l + '\n' for l in lines[:-1]] + ([lines[-1]] if lines else []))
        except BaseException as e:
            ctx.violation('log-exception', '%s: %r escaped the log pipeline' % (type(e).__name__, e), case)
            return
        opened, closed = check_closed(s.events)
        print('opened', opened, 'closed', closed)
        if not any(k == 'eof' for k, p in s.events):
            ctx.violation('not-consumed', 'the reader stopped before the end of the input', case)
        tb = [p for k, p in s.events if k == 'out' and 'Traceback (most recent call last)' in p]
        if 'session_no' in case and (tb or not opened):
            ctx.violation('wellformed-log-abandoned', 'decoding abandoned: %s' % (tb[0].strip().split('\n')[-1][:160] if tb else 'no connection opened'), case)
        if sorted(opened) != sorted(closed):
            ctx.violation('connection-not-closed', 'opened %r, closed %r' % (opened, closed), case)
    elif 'matcher' in case:
        from core import matcher
        ctx.ev()
        try:
            m = matcher.parse(case['matcher'])
        except RuntimeError as e:
            print('rejected:', e)
            return
        except BaseException as e:
            ctx.violation('matcher-parse-exception', 'parse(%r) raised %s: %r' % (case['matcher'][:200], type(e).__name__, e), case)
            return
        try:
            s = Session()
            s.feed(['[1.0]  -> wl_display@1.sync(new id wl_callback@2)\n', '[1.0] zz_q@777.odd(1e999, -1e999, 0.0, fd 3, nil, "s", array)\n',
                    '[1.0]  -> zz_q@777.frob(new id [unknown]@778, nil, wl_what@999, ???)\n',
                    '[1.0]  -> zwp_primary_selection_device_manager_v1@779.get_device(new id zwp_primary_selection_device_v1@780, wl_seat@781)\n',
                    '[1.0] zz_q@778.odd2("", "%s", nil, nil)\n' % ('x' * 5000)])

            ctx.heartbeat(case, 'matcher-eval-unbounded', 'evaluation of the accepted matcher %r on 5 messages' % case['matcher'][:200])
            ms = m.simplify()
            str(m), repr(m), str(ms), repr(ms)
            for x in s.ctl.all_messages:
                ms.matches(x)
            ctx.heartbeat(None)
            print(repr(ms)[:300])
        except BaseException as e:
            ctx.violation('matcher-eval-exception', 'accepted matcher %r: %s: %r' % (case['matcher'][:200], type(e).__name__, e), case)
    elif 'command' in case:
        s = Session()
        if case.get('state') in ('loaded', 'selected', 'closed'):
            s.feed(['[1.0] <1>  -> wl_display@1.sync(new id wl_callback@2)\n', '[2.0] <2>  -> wl_display@1.sync(new id wl_callback@2)\n',
                    '[3.0] <1>  -> zwp_primary_selection_device_manager_v1@5.get_device(new id zwp_primary_selection_device_v1@6, wl_seat@7)\n'], cleanup=case.get('state') == 'closed')
            if case.get('state') == 'selected':
                s.command('connection A')
        for c in case.get('prior', []):
            # (what the same session was told just before: a filter set then is what a bare `list` evaluates now)
            try:
                ctx.heartbeat(dict(case, command=c, prior=[]), 'command-unbounded', 'the command %r' % c)
                s.command(c)
            except BaseException:
                pass
        n0 = len(s.events)
        ctx.ev()
        ctx.heartbeat(case, 'command-unbounded', 'the command %r' % case['command'])
        try:
            s.command(case['command'])
        except BaseException as e:
            ctx.violation('command-exception', '%r raised %s: %r' % (case['command'], type(e).__name__, e), case)
            return
        answered = [k for k, p in s.events[n0 + 1:] if k in ('out', 'err', 'ui')]
        print(s.events[n0:])
        if not answered:
            ctx.violation('command-silent', '%r produced nothing' % case['command'], case)
    elif 'bytes_hex' in case:
        d = tempfile.mkdtemp(prefix='verif-c18-')
        fn = os.path.join(d, 'in.log')
        open(fn, 'wb').write(bytes.fromhex(case['bytes_hex']))
        e2 = dict(os.environ, LC_ALL=case['locale'])
        r = subprocess.run(['/venv/bin/python', os.path.join(env.REPO, 'main.py'), '-C', '-l', fn], input=b'quit\n', stdout=subprocess.PIPE, stderr=subprocess.PIPE, env=e2)
        print(r.returncode, r.stderr.decode('utf-8', 'replace')[-800:])
        import shutil
        shutil.rmtree(d, ignore_errors=True)
