"""C19 - everything after -r/-g is forwarded verbatim; everything before is ours.
 (1) online monitor on frontends.tui.parse_args for generated argument vectors, against a reference splitter written
     from the property (first marker wins; a cluster -Xr contributes -X to the left): wayland_debug_args, command_args,
     mode, load path, flags, filter/breakpoint matchers; zero or two modes -> usage and exit, nothing else; a malformed
     -f/-b value -> an error, never ignored.
 (2) run mode end to end: main.py <left> -r <child> <words>: the child reports the argv it really got.
 (3) GDB mode end to end: run_gdb() with a recording `gdb` first on PATH which then runs the REAL gdb on the
     `-ex 'python ...'` command with a probe script: the sys.argv seen by the instance inside gdb must be exactly the
     words before the marker, the argv gdb got must be ['-ex', <command>] + the words after the marker."""
import json
import os
import subprocess
import sys
import tempfile
import io
import contextlib

from .. import env
from ..runner import h64

PROPERTY = 'C19'
RULE = ('argv = program + items from {flags -C -p --supress --verbose --color; clusters of -C/-p letters ending in r or g; valued options '
        '-f -b -l --libwayland --filter --break --load with separate non-empty values over printable text incl. quotes, backslashes, spaces, '
        'non-ASCII (not starting with -)} + optional marker (-r --run -g --gdb or cluster) at any position + 0..6 following words repeating '
        'markers/options. distinct = the argv itself; non-trivial = argv with a marker and at least one word on each side')
ASSUMPTIONS = ['reference splitter written from the property text', 'option values starting with "-" are refused by argparse itself and not generated',
               'clusters contain only flag letters (C, p) before the marker letter']
REQUIRED = ['frontends/tui/arguments.py:_split_command', 'frontends/tui/arguments.py:_select_mode', 'frontends/tui/arguments.py:parse_args',
            'backends/gdb_plugin/runner.py:run_gdb']
HELPERS = os.path.join(os.path.dirname(os.path.dirname(os.path.abspath(__file__))), 'helpers')

VALUES_MATCHER_OK = ['wl_surface', '.commit', 'A: wl_pointer, wl_surface.[commit, destroy]', '! wl_callback, .frame', 'xdg_*.configure, 12',
                     '(x=0, y=0)', '.set_title("my app")', 'wl_pointer.[! motion, frame]', '5b', '.("a\\b")', ".('q')", 'żółć_*', '(="-r")', 'x -r y',
                     '.set_title("C:\\\\dir\\\\n")', '.x("\\")', '*', '!', '.set_title("\U0001F600 \U0001D4D0")', '.x("\u2028\x7f")']
VALUES_MATCHER_BAD = ['[', 'a.b.c', '(', 'a@b@c', '"', 'wl_surface@3', 'a!b!c', 'x(']
VALUES_PATH = ['\U0001F600.log', 'dir\U00020000/x', 'file.log', '/tmp/x y.log', 'dir/with"quote', 'back\\slash', 'ünï.log', "it's.log", 'a b c', '$HOME', '`x`', '%s', 'tab\there', '', ' ', '-', '0']
WORDS = ['\U0001F600', 'prog', 'arg1', '-f', 'x', '-r', '--run', '-g', '--gdb', '--', '', 'a b', '-Cr', '--args', '--ex', 'r', 'q', '-l', 'file', '"q"', 'back\\n', "'s'", 'żółć',
         '-p', '--supress', '-b', '*', '-Cg', '-lrt', '-rn', '-ggdb', '-vgC', '-gr', '-rf', '--load', '-rC', '-grr',
         '~', '~/build/app', '~root', '$HOME', '`id`', '$(id)', 'a;b', '*.log', '{a,b}', '%s', '%(x)s', '{0}', '\\', '#c', 'Cafe\u0301', '\u2126', '\u1112\u1161\u11ab', '\ufb01le']


def plan(tier, seed):
    if tier == 'quick':
        return [{'n': 1500, 'run': 2, 'gdb': 6} for _ in range(16)]
    return [{'n': 8000, 'run': 20, 'gdb': 60} for _ in range(48)]


def gen_argv(rng):
    left = []
    modeopts = 0
    for _ in range(rng.randint(0, 5)):
        r = rng.random()
        if r < 0.3:
            left.append(rng.choice(['-C', '--supress', '--verbose', '--color', '--no-color', '-C']))
        elif r < 0.55:
            ok = rng.random() < 0.85
            left += [rng.choice(['-f', '--filter', '-b', '--break']), rng.choice(VALUES_MATCHER_OK if ok else VALUES_MATCHER_BAD)]
        elif r < 0.7:
            left += [rng.choice(['-l', '--load']), rng.choice(VALUES_PATH)]
        elif r < 0.8:
            left.append(rng.choice(['-p', '--pipe']))
        elif r < 0.9:
            left += ['--libwayland', rng.choice(VALUES_PATH + ['/tmp', '/nonexistent'])]
        else:
            left.append(rng.choice(['-CC', '-Cp', '-pC']))
    r = rng.random()
    marker = None
    if r < 0.8:
        marker = rng.choice(['-r', '--run', '-g', '--gdb', '-r', '-g', '-Cr', '-Cg', '-pr', '-CCg', '-Cpr'])
    right = [rng.choice(WORDS) for _ in range(rng.randint(0, 6))] if marker else []
    if marker and rng.random() < 0.6:
        # most of the time exactly one mode, so that the split itself is what gets exercised (otherwise 60% of the vectors
        # end in the usage text)
        out, i = [], 0
        while i < len(left):
            if left[i] in ('-l', '--load'):
                i += 2
                continue
            if left[i] in ('-p', '--pipe', '-Cp', '-pC'):
                i += 1
                continue
            out.append(left[i])
            i += 1
        left = out
        if 'p' in marker:
            marker = marker.replace('p', 'C')
    return ['main.py'] + left + ([marker] if marker else []) + right


def reference(argv):
    """-> dict(left, right, marker_mode, error)"""
    for i, a in enumerate(argv):
        if a in ('-g', '--gdb'):
            return {'left': argv[:i], 'right': argv[i + 1:], 'cmd': 'g'}
        if a in ('-r', '--run'):
            return {'left': argv[:i], 'right': argv[i + 1:], 'cmd': 'r'}
        if len(a) > 2 and a.startswith('-') and a[1] != '-':
            body = a[1:]
            if 'g' in body[:-1] or 'r' in body[:-1]:
                return {'unspecified': True}
            if body[-1] in 'gr':
                return {'left': argv[:i] + [a[:-1]], 'right': argv[i + 1:], 'cmd': body[-1]}
    return {'left': list(argv), 'right': [], 'cmd': ''}


FLAGS = {'-C': 'no_color', '--no-color': 'no_color', '--color': 'color', '--supress': 'supress', '--verbose': 'verbose', '-p': 'pipe', '--pipe': 'pipe'}
VALUED = {'-f': 'f', '--filter': 'f', '-b': 'b', '--break': 'b', '-l': 'path', '--load': 'path', '--libwayland': 'libwayland'}


def ref_options(left):
    o = {'no_color': False, 'color': False, 'supress': False, 'verbose': False, 'pipe': False, 'f': None, 'b': None, 'path': None, 'libwayland': None}
    i = 1
    while i < len(left):
        a = left[i]
        if a in FLAGS:
            o[FLAGS[a]] = True
        elif a in VALUED:
            o[VALUED[a]] = left[i + 1]
            i += 1
        elif a.startswith('-') and not a.startswith('--'):
            for ch in a[1:]:
                o[FLAGS['-' + ch]] = True
        else:
            raise ValueError(a)
        i += 1
    return o


def check_parse_args(ctx, argv, parse_args, Mode, matcher):
    ref = reference(argv)
    case = {'argv': argv}
    ctx.ev()
    if ref.get('unspecified'):
        ctx.count('unspecified_clusters')
        return
    out, err = io.StringIO(), io.StringIO()
    result = exc = code = None
    try:
        with contextlib.redirect_stdout(out), contextlib.redirect_stderr(err):
            result = parse_args(list(argv))
    except SystemExit as e:
        code = e.code if e.code is not None else 0
    except RuntimeError as e:
        exc = e
    except Exception as e:
        ctx.violation('parse-args-exception', '%s: %r for %r' % (type(e).__name__, e, argv), case)
        return
    o = ref_options(ref['left'])
    modes = ([{'g': 'gdb-runner', 'r': 'run'}[ref['cmd']]] if ref['cmd'] else []) + (['load-from-file'] if o['path'] is not None else []) + (['pipe'] if o['pipe'] else [])
    bad_matcher = None
    for key in ('f', 'b'):
        if o[key]:
            try:
                matcher.parse(o[key]).simplify()
            except RuntimeError:
                bad_matcher = bad_matcher or key
    if len(modes) != 1:
        ctx.count('mode_conflicts')
        if result is not None or exc is not None or code != 0 or 'usage' not in out.getvalue().lower():
            ctx.violation('mode-selection', 'argv %r selects modes %r: expected usage + exit 0, got result=%r exc=%r exit=%r' % (
                argv, modes, result and result.mode, exc, code), case)
        return
    if bad_matcher:
        ctx.count('bad_matcher_values')
        if exc is None or 'invalid' not in str(exc):
            ctx.violation('bad-matcher-ignored', 'argv %r has a malformed -%s value but parse_args gave result=%r exc=%r exit=%r' % (
                argv, bad_matcher, result and result.mode, exc, code), case)
        return
    if result is None:
        ctx.violation('valid-argv-refused', 'argv %r refused: exc=%r exit=%r stderr=%r' % (argv, exc, code, err.getvalue()[-200:]), case)
        return
    probs = []
    if list(result.wayland_debug_args) != ref['left']:
        probs.append('wayland_debug_args %r != %r' % (result.wayland_debug_args, ref['left']))
    if list(result.command_args) != ref['right']:
        probs.append('command_args %r != %r' % (result.command_args, ref['right']))
    if str(result.mode.value if hasattr(result.mode, 'value') else result.mode) != modes[0]:
        probs.append('mode %r != %r' % (result.mode, modes[0]))
    if result.load_path != (o['path'] or ''):
        probs.append('load_path %r != %r' % (result.load_path, o['path']))
    if result.show_unprocessed_output != (not o['supress']) or result.show_verbose != o['verbose']:
        probs.append('supress/verbose flags')
    want_color = False if o['no_color'] else bool(o['color'])
    if result.show_color != want_color:
        probs.append('show_color %r != %r' % (result.show_color, want_color))
    for key, got in (('f', result.filter_matcher), ('b', result.stop_matcher)):
        want = matcher.parse(o[key]).simplify() if o[key] else (matcher.always if key == 'f' else matcher.never)
        if repr(got) != repr(want):
            probs.append('-%s matcher %r != %r' % (key, got, want))
    if probs:
        ctx.violation('split', '; '.join(probs) + ' for argv %r' % (argv,), case)
        return
    if ref['cmd'] and ref['right'] and len(ref['left']) > 1:
        ctx.sig(argv)
    ctx.setadd('modes', modes[0])
    return ref, o


def run_mode_e2e(ctx, rng, d):
    """the program really gets the forwarded words"""
    words = [rng.choice(WORDS) for _ in range(rng.randint(0, 6))]
    left = rng.choice([[], ['-C'], ['-f', 'wl_surface'], ['--supress'], ['-C', '-b', '.x("\\")']])
    marker = rng.choice(['-r', '--run', '-Cr'])
    report = os.path.join(d, 'report.json')
    planf = os.path.join(d, 'plan.json')
    if os.path.exists(report):
        os.unlink(report)
    with open(planf, 'w') as f:
        json.dump({'report': report, 'stderr_chunks': [[b'[1.000]  -> wl_display@1.sync(new id wl_callback@2)\n'.hex(), 0]], 'exit': 0}, f)
    e2 = dict(os.environ, VERIF_CHILD_PLAN=planf)
    prog = '/venv/bin/python'
    if rng.random() < 0.5:
        # the program given by a bare name that PATH resolves: it is forwarded as given, not as the path it resolves to
        bindir = os.path.join(d, 'bin')
        os.makedirs(bindir, exist_ok=True)
        if not os.path.lexists(os.path.join(bindir, 'vq-python')):
            os.symlink(os.path.realpath('/venv/bin/python'), os.path.join(bindir, 'vq-python'))
        e2['PATH'] = bindir + os.pathsep + e2.get('PATH', '')
        prog = 'vq-python'
    cmd = ['/venv/bin/python', os.path.join(env.REPO, 'main.py')] + left + [marker, prog, os.path.join(HELPERS, 'child.py')] + words
    r = subprocess.run(cmd, input=b'quit\n', stdout=subprocess.PIPE, stderr=subprocess.PIPE, timeout=120, env=e2)
    ctx.ev()
    ctx.count('run_mode_processes')
    case = {'cmd': cmd}
    if not os.path.exists(report):
        ctx.violation('run-child-not-started', 'child did not report; exit %d stderr %r' % (r.returncode, r.stderr[-300:]), case)
        return
    rep = json.load(open(report))
    if prog == 'vq-python' and rep.get('argv0') != prog:
        ctx.violation('run-argv', 'the program was named %r after the marker and started as %r' % (prog, rep.get('argv0')), case)
    if rep['argv'] != words:
        ctx.violation('run-argv', 'child got %r, forwarded words are %r' % (rep['argv'], words), case)
    ctx.sig(cmd)


def gdb_e2e(ctx, rng, d, parse_args):
    """what gdb and the instance inside gdb really receive"""
    if not os.path.exists('/usr/bin/gdb'):
        ctx.count('gdb_missing')
        return
    from backends.gdb_plugin import runner as gdb_runner
    probe = os.path.join(d, rng.choice(['probe.py', 'pro be.py', 'pröbe.py']))
    if not os.path.exists(probe):
        with open(os.path.join(HELPERS, 'argv_probe.py')) as f, open(probe, 'w') as g:
            g.write(f.read())
    left = []
    for _ in range(rng.randint(0, 3)):
        r = rng.random()
        if r < 0.4:
            left.append(rng.choice(['-C', '--supress', '--verbose', '--color']))
        elif r < 0.8:
            from core import matcher
            v = rng.choice(VALUES_MATCHER_OK)
            try:
                matcher.parse(v).simplify()
            except RuntimeError:
                v = 'wl_surface'
            left += [rng.choice(['-f', '-b']), v]
        else:
            left += ['--libwayland', rng.choice(VALUES_PATH)]
    marker = rng.choice(['-g', '--gdb', '-Cg'])
    right = [rng.choice(WORDS) for _ in range(rng.randint(0, 5))]
    argv = [probe] + left + [marker] + right
    ref = reference(argv)
    out_argv = os.path.join(d, 'gdb_argv.json')
    out_probe = os.path.join(d, 'probe_argv.json')
    log = os.path.join(d, 'gdb.log')
    for p in (out_argv, out_probe, log):
        if os.path.exists(p):
            os.unlink(p)
    old = dict(os.environ)
    os.environ.update({'PATH': HELPERS + ':' + old.get('PATH', ''), 'VERIF_GDB_ARGV_OUT': out_argv, 'VERIF_PROBE_OUT': out_probe, 'VERIF_GDB_LOG': log})
    case = {'argv': argv, 'gdb': True}
    ctx.ev()
    ctx.count('gdb_probes')
    try:
        with contextlib.redirect_stdout(io.StringIO()), contextlib.redirect_stderr(io.StringIO()):
            args = parse_args(list(argv))
            gdb_runner.run_gdb(args, True)
    except BaseException as e:
        os.environ.clear()
        os.environ.update(old)
        ctx.violation('gdb-runner-exception', '%s: %r for %r' % (type(e).__name__, e, argv), case)
        return
    os.environ.clear()
    os.environ.update(old)
    if not os.path.exists(out_argv):
        ctx.violation('gdb-not-started', 'gdb was not started for %r' % (argv,), case)
        return
    got = json.load(open(out_argv))
    if got[:1] != ['-ex'] or got[2:] != ref['right']:
        ctx.violation('gdb-argv', 'gdb got %r after the -ex command, forwarded words are %r' % (got[2:], ref['right']), case)
        return
    if not os.path.exists(out_probe):
        tail = open(log, errors='replace').read()[-400:] if os.path.exists(log) else ''
        ctx.violation('gdb-inner-argv', 'the instance inside gdb never ran for words %r (python command: %r; gdb said: %r)' % (ref['left'], got[1][:300], tail), case)
        return
    inner = [''.join(chr(c) for c in a) for a in json.load(open(out_probe))]
    if inner != ref['left']:
        ctx.violation('gdb-inner-argv', 'the instance inside gdb sees sys.argv %a, the words before the marker are %a' % (inner, ref['left']), case)
        return
    ctx.sig(argv)


def run(ctx, spec):
    env.setup()
    from frontends.tui import parse_args, Mode
    from core import matcher
    import logging
    rng = ctx.rng
    for i in range(spec['n']):
        argv = gen_argv(rng)
        check_parse_args(ctx, argv, parse_args, Mode, matcher)
        if i == 0:
            ctx.sample({'argv': argv})
    d = tempfile.mkdtemp(prefix='verif-c19-')
    try:
        for i in range(spec['run']):
            run_mode_e2e(ctx, rng, d)
        for i in range(spec['gdb']):
            gdb_e2e(ctx, rng, d, parse_args)
    finally:
        import shutil
        shutil.rmtree(d, ignore_errors=True)


def finalize(m):
    out = []
    if m['counters'].get('gdb_probes', 0) == 0:
        out.append('no gdb probe ran (gdb missing?)')
    return out


def replay(ctx, case):
    env.setup()
    from frontends.tui import parse_args, Mode
    from core import matcher
    d = tempfile.mkdtemp(prefix='verif-c19-')
    try:
        if case.get('gdb'):
            print('replaying a randomly drawn gdb probe is not deterministic; argv was', case['argv'])
        elif 'argv' in case:
            print(check_parse_args(ctx, case['argv'], parse_args, Mode, matcher))
    finally:
        import shutil
        shutil.rmtree(d, ignore_errors=True)
