"""C17 - colour is presentation only.
Relational monitor: the same scripted session (stream with chatter and ill-formed lines, -f/-b, commands injected
between lines, commands after EOF - including every error path) is run with colour off and on;
 (1) stripped coloured streams must equal the plain streams, out and err, item by item;
 (2) with colour off no ESC byte appears (the input is ESC-free);
 (3) paste-back: the same session with command/matcher texts in coloured form (cut from the tool's own coloured output,
     or with the tool's own SGR codes wrapped round tokens) must produce exactly what the uncoloured texts produce."""
import re

from .. import wlxml, streams, env, outline, history
from ..session import Session
from ..runner import h64

PROPERTY = 'C17'
RULE = ('sessions: 1..3 connection streams + chatter + ill-formed lines (unresolved objects, unknown arguments, duplicate ids), '
        'random -f/-b, 0..8 commands injected between lines and 6..14 after EOF drawn from every command incl. error paths; both '
        'colour settings; paste-back with coloured matcher renderings and SGR-wrapped tokens. distinct = hash of the script; '
        'non-trivial = script whose coloured output contains an escape sequence and at least one command')
ASSUMPTIONS = ['SGR stripping by an independent regex', 'input text is ESC-free so stripping cannot eat input']
REQUIRED = ['core/util.py:color', 'core/util.py:no_color', 'frontends/tui/controller.py:Controller.process_command', 'core/matcher.py:parse']

CODES = ['1;96', '36', '1;94', '95', '2;35', '93', '1;33', '35', '1;37', '1;92', '1;91', '2;37', '0']


def plan(tier, seed):
    if tier == 'quick':
        return [{'n': 45} for _ in range(12)] + [{'mode': 'proc', 'n': 8} for _ in range(2)] + [{'mode': 'gdb', 'n': 25, 'gdb_shim': True} for _ in range(2)]
    return [{'n': 350} for _ in range(52)] + [{'mode': 'proc', 'n': 40} for _ in range(8)] + [{'mode': 'gdb', 'n': 250, 'gdb_shim': True} for _ in range(4)]


def matcher_texts(rng, st):
    es = st['entries']
    out = []
    for _ in range(6):
        e = rng.choice(es)
        gt = e['rec']['gt']
        lab = '%d%s' % (gt['target'][1], history.letters(gt['target'][2]))
        nm = st['names'][e['ci']]
        out += [e['rec']['iface'], '.' + e['rec']['name'], lab, '%s: %s.%s' % (nm, e['rec']['iface'], e['rec']['name']),
                '%s, %s ! .%s' % (e['rec']['iface'], rng.choice(es)['rec']['iface'], e['rec']['name']), '(nil)', '.(x=0)',
                '%s.[%s, %s]' % (e['rec']['iface'], e['rec']['name'], rng.choice(es)['rec']['name']), '! ' + e['rec']['iface'],
                '%s:' % nm, '[%s ! %d].%s' % (e['rec']['iface'], e['rec']['id'], e['rec']['name']), '*', '!', '.new', lab + '.destroyed',
                '("hello")', '(1.5)', 'wl_*', '.(wl_surface)', '@%s' % lab,
                '(! 5)', '.%s(! x=1)' % e['rec']['name'], '%s.*(! nil)' % e['rec']['iface'], '(0 ! 1)', '([1, 2] ! 3)', '.(! [x, y]=1, nil)',
                '[! %s]' % e['rec']['iface'], '.[! %s]' % e['rec']['name'], '(! )', '( ! *)']
    return out


BAD = ['[', ']', 'a.b.c', '(', 'x y z', 'a@b@c', '"', 'wl_surface@3', ',', 'a!b!c', '(()', 'żółć']


def gen_commands(rng, st, n):
    ms = matcher_texts(rng, st)
    names = list(st['names'].values())
    cmds = []
    for _ in range(n):
        r = rng.random()
        m = rng.choice(ms) if rng.random() < 0.85 else rng.choice(BAD)
        if r < 0.25:
            c = rng.choice(['list', 'list ' + m, 'list %s ~ %d' % (m, rng.randint(0, 5)), 'list ~ 3', 'list ~ x', 'l ' + m, 'list ~', 'list a ~ b ~ c'])
        elif r < 0.4:
            c = rng.choice(['filter', 'filter ' + m, 'f ' + m, 'wlf ' + m, 'wl filter ' + m])
        elif r < 0.55:
            c = rng.choice(['breakpoint', 'breakpoint ' + m, 'b ' + m, 'b !', 'wl b ' + m])
        elif r < 0.65:
            c = rng.choice(['matcher', 'matcher ' + m, 'm ' + m])
        elif r < 0.78:
            c = rng.choice(['connection', 'connection ' + rng.choice(names), 'connection all', 'connection bogus', 'c ' + rng.choice(names).lower(), 'c'])
        elif r < 0.9:
            c = rng.choice(['help', 'help list', 'help matcher', 'help bogus', 'h', 'help wlfilter', 'wlhelp matcher', 'wl help', 'w h', 'help b', 'help q'])
        else:
            c = rng.choice(['bogus', '', 'wl', 'w', 'x y', 'resume', 'quit', 'r', 'q', 'wlresume', '   ', 'li', 'LIST', 'Help'])
        cmds.append(c)
    return cmds


def break_lines(rng, lines):
    """ill-formed lines: unresolved objects, unknown arguments (things that print in 'bad' colour)"""
    out = list(lines)
    for _ in range(rng.randint(0, 4)):
        i = rng.randrange(len(out))
        l = out[i]
        r = rng.random()
        if r < 0.3:
            l = re.sub(r'([@#])(\d+)\.', lambda m: m.group(1) + str(int(m.group(2)) + 7777) + '.', l, count=1)    # unknown target id
        elif r < 0.6 and l.endswith(')'):
            l = l[:-1] + (', ' if not l.endswith('()') else '') + rng.choice(['???', 'what is this', '0x12', '-', "'q'"]) + ')'   # unknown argument
        elif r < 0.8:
            out.insert(i, l)       # duplicate line: new ids collide
            continue
        else:
            l = re.sub(r'\w+([@#]\d+\.)', lambda m: 'wrong_type' + m.group(1), l, count=1)
        out[i] = l
    return out


def colourize(rng, text):
    """wrap whole whitespace/punctuation-delimited tokens in the tool's own SGR codes"""
    toks = re.split(r'(\s+|[,:!()\[\].=@])', text)
    res = ''
    for t in toks:
        if t and not t.isspace() and rng.random() < 0.5:
            res += '\x1b[%sm%s\x1b[0m' % (rng.choice(CODES), t)
        else:
            res += t
    return res


def run_script(script, color, recolour=None):
    s = Session(show_unprocessed=script['show_unprocessed'], color=color, filter_text=script['filter'], stop_text=script['stop'])
    hooks = {int(k): v for k, v in script['hooks'].items()}
    cmds_after = script['after']
    if recolour:
        hooks = {k: [recolour[c] for c in v] for k, v in hooks.items()}
        cmds_after = [recolour[c] for c in cmds_after]
    s.feed([l + '\n' for l in script['lines']], hooks=hooks)
    for c in cmds_after:
        s.command(c)
    return s


def streams_of(s, strip):
    f = outline.strip_sgr if strip else (lambda x: x)
    return [(k, f(p)) for k, p in s.events if k in ('out', 'err', 'ui')]


def PASS_OF(line):
    return outline.PASS_PREFIX + line.strip()


def check_script(ctx, script, rng, coloured_first=None):
    if coloured_first is None:
        coloured_first = rng.random() < 0.5
    case = {'script': script, 'coloured_first': coloured_first}
    try:
        # either order: what one session printed must not leak into the next one of the same process
        if not coloured_first:
            plain = run_script(script, False)
            col = run_script(script, True)
        else:
            col = run_script(script, True)
            plain = run_script(script, False)
            ctx.count('coloured_session_first')
    except Exception as e:
        import traceback
        ctx.violation('session-exception', '%s: %r' % (type(e).__name__, e), case, tb=traceback.format_exc()[-1500:])
        return False
    a = streams_of(plain, False)
    b = streams_of(col, True)
    # escape sequences that were in the input are part of a passed-through line's text in both runs: they are exempt
    # only where the item is that line, prefix + text, and nothing else
    own = set(PASS_OF(l) for l in script['lines'] if '\x1b' in l)
    if own:
        ctx.count('scripts_with_coloured_chatter')
        a = [(k, outline.strip_sgr(p) if p in own else p) for k, p in a]
    ctx.count('items_compared', len(a))
    has_esc = any('\x1b' in p for k, p in col.events if k in ('out', 'err'))
    if has_esc:
        ctx.count('sessions_with_colour')
    for k, p in a:
        if '\x1b' in p:
            ctx.violation('escape-when-off', 'colour off but %s item contains ESC: %r' % (k, p[:200]), case)
            return False
    if a != b:
        j = next((j for j in range(min(len(a), len(b))) if a[j] != b[j]), min(len(a), len(b)))
        ctx.violation('colour-changes-text', 'item %d: plain %r vs stripped coloured %r' % (j, a[j:j + 1], b[j:j + 1]), case)
        return False
    # kinds of constructs printed
    for k, p in a:
        if k == 'out':
            ctx.setadd('constructs', outline.parse_line(p)['kind'])
        elif k == 'err':
            ctx.setadd('constructs', 'err:' + p.split(':')[0][:20])
    return has_esc


def paste_back(ctx, script, rng):
    """coloured command/matcher texts vs the same texts uncoloured, under both colour settings"""
    allc = list(dict.fromkeys([c for v in script['hooks'].values() for c in v] + script['after']))
    # coloured renderings cut from the tool's own output
    probe = Session(color=True)
    rec = {}
    for c in allc:
        parts = c.split(None, 1)
        rc = None
        if len(parts) == 2 and parts[0] in ('filter', 'breakpoint', 'list', 'matcher', 'f', 'b', 'l', 'm') and '~' not in parts[1] and rng.random() < 0.5:
            n0 = len(probe.events)
            probe.command('matcher ' + parts[1])
            outs = [p for k, p in probe.events[n0:] if k == 'out' and p.startswith('Unsimplified: ')]
            if outs and '\x1b' in outs[0]:
                col_m = outs[0][len('Unsimplified: '):]
                # what it must be equivalent to is the *uncoloured same text*, so the plain script gets the stripped text
                rec[c] = (parts[0] + ' ' + outline.strip_sgr(col_m), parts[0] + ' ' + col_m)
                ctx.count('pasted_own_rendering')
                continue
        rec[c] = (c, colourize(rng, c))
    plain_script = dict(script, hooks={k: [rec[c][0] for c in v] for k, v in script['hooks'].items()}, after=[rec[c][0] for c in script['after']])
    recolour = {rec[c][0]: rec[c][1] for c in allc}
    case = {'script': plain_script, 'recolour': recolour}
    for color in (False, True):
        try:
            p = run_script(plain_script, color)
            q = run_script(plain_script, color, recolour)
        except Exception as e:
            import traceback
            ctx.violation('paste-exception', '%s: %r' % (type(e).__name__, e), case, tb=traceback.format_exc()[-1500:])
            return
        a = streams_of(p, True)
        b = streams_of(q, True)
        ctx.count('paste_items_compared', len(a))
        if a != b:
            j = next((j for j in range(min(len(a), len(b))) if a[j] != b[j]), min(len(a), len(b)))
            cmds = [x for x in plain_script['after']]
            ctx.violation('coloured-input', 'colour=%r: with coloured commands item %d is %r, with plain commands %r' % (
                color, j, b[j:j + 1], a[j:j + 1]), case)
            return
        # same state afterwards
        if (str(p.ctl.display_matcher), str(p.ctl.stop_matcher), p.ctl.current_connection and p.ctl.current_connection.name()) != \
           (str(q.ctl.display_matcher), str(q.ctl.stop_matcher), q.ctl.current_connection and q.ctl.current_connection.name()):
            ctx.violation('coloured-input-state', 'state differs after coloured commands', case)
            return


def run_on_terminal(cmd, stdin, env2, cols, errfile):
    """stdout is a pseudo-terminal `cols` wide (output post-processing off, so a newline stays a newline)"""
    import fcntl
    import os
    import pty
    import select
    import struct
    import subprocess
    import termios
    m, sl = pty.openpty()
    fcntl.ioctl(sl, termios.TIOCSWINSZ, struct.pack('HHHH', 24, cols, 0, 0))
    attrs = termios.tcgetattr(sl)
    attrs[1] &= ~termios.OPOST
    termios.tcsetattr(sl, termios.TCSANOW, attrs)
    with open(errfile, 'wb') as ef:
        p = subprocess.Popen(cmd, stdin=subprocess.PIPE, stdout=sl, stderr=ef, env=env2)
        os.close(sl)
        try:
            p.stdin.write(stdin)
            p.stdin.close()
        except BrokenPipeError:
            pass
        out = b''
        while True:
            r, _, _ = select.select([m], [], [], 300)
            if not r:
                p.kill()
                break
            try:
                chunk = os.read(m, 65536)
            except OSError:
                break           # EIO: the other end is closed
            if not chunk:
                break
            out += chunk
        p.wait(timeout=300)
        os.close(m)
    return (p.returncode, out.decode('utf-8', 'replace'), open(errfile, 'rb').read().decode('utf-8', 'replace'))


def run_proc(ctx, spec):
    """real processes: `main.py --color -l FILE` vs `main.py -C -l FILE` with the same commands typed at the prompt (stdin);
    stripped coloured stdout/stderr must equal the plain ones"""
    import os
    import subprocess
    import tempfile
    env.setup()
    cands = wlxml.shipped(env.REPO)
    rng = ctx.rng
    d = tempfile.mkdtemp(prefix='verif-c17-')
    try:
        for i in range(spec['n']):
            k = rng.choice([1, 2])
            st = streams.build(rng, cands, k=k, n_each=(15, 60), tagged=(k > 1), opts={'thresh': 0.1})
            lines = [e['line'] for e in st['entries']]
            for _ in range(rng.randint(0, 4)):
                lines.insert(rng.randrange(len(lines) + 1), rng.choice(['hello world', '', 'libEGL warning: x', 'żółć']))
            lines = break_lines(rng, lines)
            cmds = [c for c in gen_commands(rng, st, rng.randint(3, 8)) if c.strip() not in ('q', 'quit', 'r', 'resume', 'wlresume', 'qu', 're') and '\x1b' not in c]
            ms = matcher_texts(rng, st)
            opts = []
            if rng.random() < 0.5:
                f = rng.choice(ms)
                if f not in ('*', '!'):
                    opts += ['-f', f]
            fn = os.path.join(d, 'in.log')
            open(fn, 'w', encoding='utf-8').write('\n'.join(lines) + '\n')
            stdin = ('\n'.join(cmds) + '\nquit\n').encode('utf-8')
            e2 = {k2: v for k2, v in os.environ.items() if not k2.startswith('LC_') and k2 != 'LANG'}
            e2['LC_ALL'] = 'C.UTF-8'
            outs = {}
            cols = rng.choice([None, None, 20, 40, 80, 200])      # None: stdout is a pipe; a number: a terminal that wide
            for flag in ('-C', '--color'):
                cmd = ['/venv/bin/python', os.path.join(env.REPO, 'main.py'), flag] + opts + ['-l', fn]
                if cols is None:
                    r = subprocess.run(cmd, input=stdin, stdout=subprocess.PIPE, stderr=subprocess.PIPE, timeout=300, env=e2)
                    outs[flag] = (r.returncode, r.stdout.decode('utf-8', 'replace'), r.stderr.decode('utf-8', 'replace'))
                else:
                    outs[flag] = run_on_terminal(cmd, stdin, e2, cols, os.path.join(d, 'stderr.txt'))
                    ctx.count('processes_writing_to_a_terminal')
                ctx.count('processes')
            ctx.ev()
            case = {'script': {'lines': lines, 'after': cmds, 'hooks': {}, 'filter': opts[1] if opts else None, 'stop': None, 'show_unprocessed': True}, 'process': True,
                    'terminal_columns': cols}
            p, c = outs['-C'], outs['--color']
            if '\x1b' in p[1] or '\x1b' in p[2]:
                ctx.violation('escape-when-off', 'main.py -C wrote an escape sequence', case)
            elif (p[0], p[1], p[2]) != (c[0], outline.strip_sgr(c[1]), outline.strip_sgr(c[2])):
                a, b = p[1].split('\n'), outline.strip_sgr(c[1]).split('\n')
                j = next((j for j in range(min(len(a), len(b))) if a[j] != b[j]), min(len(a), len(b)))
                ctx.violation('colour-changes-text', 'process: stdout line %d plain %r vs stripped coloured %r (exit %d / %d; stderr equal: %r)' % (
                    j, a[j:j + 1], b[j:j + 1], p[0], c[0], p[2] == outline.strip_sgr(c[2])), case)
            elif '\x1b' in c[1]:
                ctx.sig(['proc', h64(case)])
                ctx.count('sessions_with_colour')
            if i % 3 == 0:
                # invocations that print something and exit (--matcher-help, -h, a usage error), colour disabled, into a pipe and on a
                # terminal: no escape sequence, and the same text as with colour forced once that is stripped
                for argv in (['-C', '--matcher-help'], ['--matcher-help', '--no-color'], ['-C', '-h'], ['-C'], ['-C', '--color', '--matcher-help']):
                    mainp = ['/venv/bin/python', os.path.join(env.REPO, 'main.py')]
                    r1 = subprocess.run(mainp + argv, input=b'', stdout=subprocess.PIPE, stderr=subprocess.PIPE, timeout=300, env=e2)
                    t = run_on_terminal(mainp + argv, b'', e2, 80, os.path.join(d, 'stderr.txt'))
                    ctx.ev()
                    ctx.count('processes', 2)
                    for where, text in (('into a pipe', r1.stdout.decode('utf-8', 'replace') + r1.stderr.decode('utf-8', 'replace')), ('on a terminal', t[1] + t[2])):
                        if '\x1b' in text:
                            ctx.violation('escape-when-off', 'main.py %s %s wrote an escape sequence: %r' % (' '.join(argv), where, text[max(0, text.index('\x1b') - 30):text.index('\x1b') + 30]),
                                          {'argv': argv, 'where': where})
                            break
    finally:
        import shutil
        shutil.rmtree(d, ignore_errors=True)


def run_gdb(ctx, spec):
    """GDB mode prints things the other modes never do (halt notices, the warning about a message arriving on another
    thread, command output through gdb.write): the same session with colour on and off"""
    import random
    from .. import gdbsim
    env.setup(spec)
    cands = wlxml.shipped(env.REPO)
    rng = ctx.rng
    for i in range(spec['n']):
        k = rng.randint(1, 3)
        st = streams.build(rng, cands, k=k, n_each=(10, 40), tagged=True)
        ms = matcher_texts(rng, st)
        stop = rng.choice([None, rng.choice(ms), '.' + rng.choice(st['entries'])['rec']['name']])
        if stop in ('*', '!'):
            stop = None
        threads = [rng.choice([1, 1, 2, 3]) for _ in st['entries']]
        cmds = {rng.randrange(len(st['entries'])): rng.choice(gen_commands(rng, st, 3)) for _ in range(rng.randint(0, 4))}
        seed = rng.getrandbits(32)
        outs = {}
        try:
            for color in ((False, True) if rng.random() < 0.5 else (True, False)):
                gs = gdbsim.GdbSession(stop_text=stop, color=color, verbose=False)
                r2 = random.Random(seed)
                for ci in st['names']:
                    gs.new_connection(ci, st['sides'][ci])
                for j, e in enumerate(st['entries']):
                    if j in cmds:
                        gs.sim.command('wl', cmds[j])
                    gs.deliver(gs.event_for(e['ci'], e['rec'], r2, threads[j]))
                outs[color] = gs.written_since(0)
        except Exception as e:
            import traceback
            ctx.violation('session-exception', 'GDB-mode session: %s: %r' % (type(e).__name__, e), {'gdb_lines': [x['line'] for x in st['entries']]}, tb=traceback.format_exc()[-1200:])
            continue
        ctx.ev()
        ctx.count('gdb_sessions')
        ctx.count('gdb_items_compared', len(outs[False]))
        if any('Got message' in x for x in outs[False]):
            ctx.count('gdb_sessions_with_thread_warning')
        # (GDB mode stamps messages with the wall clock: times and lifespans differ from run to run, they are blanked)
        def blank(x):
            return re.sub(r' after -?\d+\.\d{4}s', ' after LIFE', re.sub(r'^\s*-?\d+\.\d{4} ', 'TIME ', x))
        # (and a gap separator appears when the machine happened to stall for a second between two events: dropped)
        a = [blank(x) for x in outs[False] if outline.parse_line(x)['kind'] != 'sep']
        b = [blank(outline.strip_sgr(x)) for x in outs[True] if outline.parse_line(outline.strip_sgr(x))['kind'] != 'sep']
        case = {'gdb_lines': [x['line'] for x in st['entries']], 'stop': stop, 'threads': threads, 'commands': {str(k2): v for k2, v in cmds.items()}}
        bad = next((x for x in a if '\x1b' in x), None)
        if bad is not None:
            ctx.violation('escape-when-off', '[GDB mode] colour off but an item contains ESC: %r' % bad[:200], case)
        elif a != b:
            j = next((j for j in range(min(len(a), len(b))) if a[j] != b[j]), min(len(a), len(b)))
            ctx.violation('colour-changes-text', '[GDB mode] item %d: plain %r vs stripped coloured %r' % (j, a[j:j + 1], b[j:j + 1]), case)
        elif any('\x1b' in x for x in outs[True]):
            ctx.sig(['gdb', h64(case)])


def run(ctx, spec):
    if spec.get('mode') == 'gdb':
        return run_gdb(ctx, spec)
    if spec.get('mode') == 'proc':
        return run_proc(ctx, spec)
    env.setup()
    cands = wlxml.shipped(env.REPO)
    rng = ctx.rng
    for i in range(spec['n']):
        k = rng.choice([1, 2, 3])
        topts = {'thresh': 0.1, 'titles': rng.choice([0.02, 0.1])}
        if rng.random() < 0.3:
            # long window titles / app ids: they end up in the connection's description (`connection` listing)
            topts.update({'titles': 0.3, 'app_pool': ['a' * 64, 'A rather long window title that goes on and on (draft 2) - Text Editor', 'org.example.' + 'Sub' * 25, 'x' * 200, 'short']})
        st = streams.build(rng, cands, k=k, n_each=(15, 70), tagged=(k > 1 or rng.random() < 0.3), opts=topts)
        lines = [e['line'] for e in st['entries']]
        # chatter
        for _ in range(rng.randint(0, 5)):
            lines.insert(rng.randrange(len(lines) + 1), rng.choice(['hello world', '', 'libEGL warning: x', '[1.0] nope', 'żółć',
                                                                     # the program's own colours on a passed-through line: they are the line's text
                                                                     '\x1b[31mERROR:\x1b[0m something failed', '\x1b[1;32mok', 'plain \x1b[0m', '\x1b[38;5;208mwarn\x1b[m [2.0] x']))
        lines = break_lines(rng, lines)
        ms = matcher_texts(rng, st)
        hooks = {}
        for _ in range(rng.randint(0, 8)):
            hooks.setdefault(str(rng.randint(0, len(lines))), []).extend(gen_commands(rng, st, 1))
        after = gen_commands(rng, st, rng.randint(6, 14))
        if rng.random() < 0.35:
            # a long matcher (hundreds of escape sequences once it is coloured)
            many = [rng.choice(ms) for _ in range(rng.randint(70, 160))]
            many = [m for m in many if m not in ('*', '!') and '!' not in m and ',' not in m and ':' not in m]
            after.insert(rng.randrange(len(after) + 1), rng.choice(['filter ', 'breakpoint ', 'list ', 'matcher ']) + ', '.join(many))
        script = {'lines': lines, 'hooks': hooks, 'after': after,
                  'filter': rng.choice([None, None, rng.choice(ms)]), 'stop': rng.choice([None, rng.choice(ms)]),
                  'show_unprocessed': rng.random() < 0.8}
        for key in ('filter', 'stop'):
            if script[key] in ('*', '!'):
                script[key] = None
        ctx.ev()
        ok = check_script(ctx, script, rng)
        if ok:
            ctx.sig(h64(script))
        paste_back(ctx, script, rng)
        if len(ctx.samples) < 1:
            ctx.sample({'lines_head': lines[:3], 'hooks': hooks, 'after': script['after'], 'filter': script['filter'], 'stop': script['stop']})
        if ctx.out_of_time():
            break


def finalize(m):
    if m['counters'].get('sessions_with_colour', 0) == 0:
        return ['coloured sessions never contained an escape sequence']
    return []


def replay(ctx, case):
    env.setup()
    script = case['script']
    if 'recolour' in case:
        for color in (False, True):
            p = run_script(script, color)
            q = run_script(script, color, case['recolour'])
            a, b = streams_of(p, True), streams_of(q, True)
            for j in range(max(len(a), len(b))):
                if a[j:j + 1] != b[j:j + 1]:
                    print('colour', color, 'item', j, 'plain cmds:', a[j:j + 1], 'coloured cmds:', b[j:j + 1])
                    break
    else:
        check_script(ctx, script, ctx.rng, bool(case.get('coloured_first')))
