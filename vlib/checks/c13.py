"""C13 - file, pipe and run modes show the same thing; run mode is transparent.
Relational monitor over real processes: the same stream is displayed by `main.py -l FILE`, `main.py -p < FILE` and
`main.py -r CHILD` (the child writes the stream to its stderr following a chunk schedule); each stdout, prompts and the
child's own marker removed, must equal the reference display (the in-process pipeline on the same lines, which C08
ties to the ground truth) - hence equal across modes and schedules.  The child reports what it really got: argv,
WAYLAND_DEBUG, and fstat of its stdout (must be wayland-debug's own stdout); wayland-debug must exit with the child's
status; nothing may be lost when the child exits immediately after one large write."""
import json
import os
import subprocess
import tempfile

from .. import wlxml, streams, env, outline
from ..session import Session
from ..runner import h64

PROPERTY = 'C13'
RULE = ('streams: the shipped real logs and generated multi-connection streams with chatter and non-ASCII text, final line with and '
        'without newline; schedules: one write; line by line; random chunk boundaries incl. mid-line and mid-UTF-8-character splits; '
        'sleeps 0..20 ms; one big write then _exit; > 64 kB bursts; exit statuses 0..255 (10 per quick run, all in thorough); forwarded '
        'argument lists with option look-alikes, empty strings, spaces, non-ASCII. distinct = (stream hash, mode, schedule hash, '
        'status); non-trivial = run-mode execution with more than one chunk or a non-zero status')
ASSUMPTIONS = ['C.UTF-8 locale for all three modes', 'the reference display is the in-process pipeline (validated against ground truth by C08)',
               'a process exceeding its time limit is inconclusive, never a violation']
REQUIRED = ['backends/libwayland_debug_output/parse.py:Parser.parse_all', 'backends/libwayland_debug_output/runner.py:run_program',
            'backends/libwayland_debug_output/runner.py:_Subprocess.run']   # (main.py itself runs in child processes: decided by what those do)
HELPERS = os.path.join(os.path.dirname(os.path.dirname(os.path.abspath(__file__))), 'helpers')
MARKER = 'CHILD-STDOUT-MARKER-7f3a\n'
WORDS = ['prog', 'arg1', '-f', 'x', '-r', '--run', '-g', '--gdb', '--', '', 'a b', '-Cr', '-l', 'file', '"q"', 'back\\n', "'s'", 'żółć', '-p', '--supress', '-b', '*',
         '~', '~/x', '~root', '~/.config/app.conf', '$HOME', '${HOME}', '%s', '`id`', '$(id)', 'a;b', 'a|b', '>x', '*.log', '?', '[a]', '{a,b}', '\\', 'a\\ b', '#c', '!x', '&', 'Cafe\u0301', '\u2126', '\u1112\u1161\u11ab', '\ufb01le', '\U0001F3B5 x']


def plan(tier, seed):
    if tier == 'quick':
        return [{'n': 4, 'statuses': 'some'} for _ in range(16)]
    return [{'n': 14, 'statuses': 'all', 'status_base': i * 4} for i in range(64)]


def gen_stream(rng, cands):
    if rng.random() < 0.25:
        d = os.path.join(env.REPO, 'resources', 'libwayland_debug_logs')
        fns = [f for f in sorted(os.listdir(d)) if os.path.getsize(os.path.join(d, f)) > 0]
        text = open(os.path.join(d, rng.choice(fns)), encoding='utf-8').read()
        lines = text.split('\n')
        if lines and lines[-1] == '':
            lines.pop()
        # several untagged connections cannot be told apart (upstream issue 5): real logs are single-connection
        return lines[:rng.randint(20, 400)]
    k = rng.choice([1, 2, 3])
    st = streams.build(rng, cands, k=k, n_each=(10, 60), tagged=(k > 1 or rng.random() < 0.3))
    lines = [e['line'] for e in st['entries']]
    for _ in range(rng.randint(0, 6)):
        lines.insert(rng.randrange(len(lines) + 1), rng.choice(['hello world', '', 'libEGL warning: żółć', '[1.0] nope', '日本語 text', '   spaced   ', 'x' * 5000]))
    if rng.random() < 0.2:
        lines += ['[%10.3f]  -> wl_display@1.sync(new id wl_callback@%d)' % (9e6 + i, 900000 + i) for i in range(1500)]      # > 64 kB burst
    return lines


def gen_schedule(rng, data):
    r = rng.random()
    if r < 0.2:
        return [[data, 0]], 'one-write'
    if r < 0.35:
        return [[data, 0]], 'one-write-hard-exit'
    if r < 0.5:
        return [[l, rng.choice([0, 0, 1]) if i < 100 else 0] for i, l in enumerate(data.splitlines(keepends=True))], 'lines'
    chunks = []
    i = 0
    while i < len(data):
        n = rng.choice([1, 2, 3, 7, 50, 400, 5000, 70000])
        chunks.append([data[i:i + n], rng.choice([0, 0, 0, 1, 5, 20]) if len(chunks) < 60 else 0])
        i += n
    return chunks, 'random-chunks'


def normalise(stdout_text):
    t = stdout_text.replace('wl debug $ ', '').replace(MARKER, '')
    ls = t.split('\n')
    if ls and ls[-1] == '':
        ls.pop()
    return ls


def reference(lines):
    s = Session()
    s.feed([l + '\n' for l in lines])
    return [p for k, p in s.events if k == 'out']


def run_one(ctx, rng, cands, d, status):
    lines = gen_stream(rng, cands)
    final_nl = rng.random() < 0.7
    cr = rng.random() < 0.2
    if cr:
        # carriage returns: a progress line rewritten with CR, CRLF line ends, a CR inside program text.  How a CR splits
        # lines is the text layer's business; whatever it is, it has to be the same in the three modes.
        for _ in range(rng.randint(1, 5)):
            i = rng.randrange(len(lines) + 1)
            lines.insert(i, rng.choice(['progress 10%\rprogress 50%\rprogress 100%', 'text with\rcarriage return', 'crlf line\r', '\r',
                                        'loading\r' + (lines[i - 1] if i else 'x')]))
    data = ('\n'.join(lines) + ('\n' if final_nl else '')).encode('utf-8')
    # the lines the byte stream really has (an empty last element is no line)
    lines = data.decode('utf-8').split('\n')
    if lines and lines[-1] == '':
        lines.pop()
    ref = []
    if not cr:
        for p in reference(lines):
            ref += p.split('\n')
    fn = os.path.join(d, 'stream.log')
    open(fn, 'wb').write(data)
    main = ['/venv/bin/python', os.path.join(env.REPO, 'main.py'), '-C']
    e2 = {k: v for k, v in os.environ.items() if not k.startswith('LC_') and k != 'LANG'}
    e2['LC_ALL'] = 'C.UTF-8'
    # the harness pins its own hash seed for reproducibility; the processes it starts get a different one each, as processes
    # started by a user do (the display does not depend on it)
    e2['PYTHONHASHSEED'] = str(rng.randint(1, 2 ** 31))
    if rng.random() < 0.2:
        # the interpreter's own switches in the environment (asserts compiled away, unbuffered streams): the display is the same
        e2.update(rng.choice([{'PYTHONOPTIMIZE': '1'}, {'PYTHONOPTIMIZE': '2'}, {'PYTHONUNBUFFERED': '1'}]))
        ctx.count('runs_with_interpreter_switches')
    case = {'lines': lines, 'final_newline': final_nl,
            'interpreter_env': {k: v for k, v in e2.items() if k in ('PYTHONOPTIMIZE', 'PYTHONUNBUFFERED', 'PYTHONHASHSEED')}}
    shash = h64(lines)

    def differs(got, what, extra=None):
        if got != ref:
            j = next((j for j in range(min(len(got), len(ref))) if got[j] != ref[j]), min(len(got), len(ref)))
            ctx.violation('display-differs', '%s: item %d is %r, the reference display has %r (%d vs %d items)' % (
                what, j, got[j:j + 1], ref[j:j + 1], len(got), len(ref)), dict(case, **(extra or {})))
            return True
        return False
    try:
        # ---- file and pipe ---------------------------------------------------------------------------------------
        r = subprocess.run(main + ['-l', fn], input=b'quit\n', stdout=subprocess.PIPE, stderr=subprocess.PIPE, timeout=300, env=e2)
        ctx.ev()
        ctx.count('processes')
        if r.returncode != 0:
            ctx.violation('file-mode-exit', 'exit %d: %s' % (r.returncode, r.stderr.decode('utf-8', 'replace')[-300:]), dict(case, mode='-l'))
            return
        if cr:
            ref[:] = normalise(r.stdout.decode('utf-8'))      # with CRs in the stream file mode is the reference for the other two
            ctx.count('streams_with_carriage_returns')
        differs(normalise(r.stdout.decode('utf-8')), 'file mode', {'mode': '-l'})
        r = subprocess.run(main + ['-p'], input=data, stdout=subprocess.PIPE, stderr=subprocess.PIPE, timeout=300, env=e2)
        ctx.ev()
        ctx.count('processes')
        if r.returncode != 0:
            ctx.violation('pipe-mode-exit', 'exit %d: %s' % (r.returncode, r.stderr.decode('utf-8', 'replace')[-300:]), dict(case, mode='-p'))
            return
        differs(normalise(r.stdout.decode('utf-8')), 'pipe mode', {'mode': '-p'})
        if rng.random() < 0.3:
            # standard input is not always an anonymous pipe: the remote end of `... | ssh host wayland-debug -p`, socat, inetd hand over a socket
            import socket
            import threading
            a, b = socket.socketpair()

            def feed(sock=a, data=data):
                try:
                    sock.sendall(data)
                    sock.shutdown(socket.SHUT_WR)
                except OSError:
                    pass
            th = threading.Thread(target=feed, daemon=True)
            th.start()
            try:
                r = subprocess.run(main + ['-p'], stdin=b.fileno(), stdout=subprocess.PIPE, stderr=subprocess.PIPE, timeout=300, env=e2)
            finally:
                th.join(timeout=10)
                a.close()
                b.close()
            ctx.ev()
            ctx.count('processes')
            ctx.count('pipe_mode_runs_on_a_socket')
            if r.returncode != 0:
                ctx.violation('pipe-mode-exit', 'standard input a socket: exit %d: %s' % (r.returncode, r.stderr.decode('utf-8', 'replace')[-300:]), dict(case, mode='-p (socket)'))
                return
            differs(normalise(r.stdout.decode('utf-8')), 'pipe mode, standard input a socket', {'mode': '-p (socket)'})
        # ---- run mode, two schedules ---------------------------------------------------------------------------------
        for rep in range(2):
            chunks, sname = gen_schedule(rng, data)
            words = [rng.choice(WORDS) for _ in range(rng.randint(0, 5))]
            extra_plan = {}
            pre_opts = []
            if rep == 1 and rng.random() < 0.35:
                # the program closes / redirects its stderr and keeps running for a while before it exits
                extra_plan = {'close_stderr': True, 'linger_ms': rng.choice([300, 1300, 1600])}
                sname += '+close-stderr-linger%d' % extra_plan['linger_ms']
            if rng.random() < 0.4:
                # a libwayland directory that exists (must come before the marker): goes first on LD_LIBRARY_PATH
                libdir = os.path.join(d, rng.choice(['libwl', 'lib wl']))
                os.makedirs(libdir, exist_ok=True)
                pre_opts = ['--libwayland', libdir]
            report = os.path.join(d, 'report.json')
            if os.path.exists(report):
                os.unlink(report)
            planf = os.path.join(d, 'plan.json')
            json.dump(dict({'report': report, 'stderr_chunks': [[c.hex(), dl] for c, dl in chunks], 'stdout_text': MARKER, 'exit': status}, **extra_plan), open(planf, 'w'))
            outf = os.path.join(d, 'stdout.txt')
            e3 = dict(e2, VERIF_CHILD_PLAN=planf)
            if rng.random() < 0.35:
                # wayland-debug's own environment already has the variable (the user debugs a compositor, or switched it off)
                e3['WAYLAND_DEBUG'] = rng.choice(['server', '0', '', 'client', '1'])
                sname += '+outer-WAYLAND_DEBUG=%s' % e3['WAYLAND_DEBUG']
                ctx.count('runs_with_outer_wayland_debug')
            # how the program is named: an absolute path and a script (the usual case), a bare name found on PATH, or one word whose
            # path has blanks and quotes in it and that gets no arguments at all
            prog = ['/venv/bin/python', os.path.join(HELPERS, 'child.py')]
            how = rng.random()
            if how < 0.2:
                bindir = os.path.join(d, 'bin')
                os.makedirs(bindir, exist_ok=True)
                if not os.path.lexists(os.path.join(bindir, 'vq-python')):
                    os.symlink(os.path.realpath('/venv/bin/python'), os.path.join(bindir, 'vq-python'))
                e3['PATH'] = bindir + os.pathsep + e3.get('PATH', '')
                prog = ['vq-python', os.path.join(HELPERS, 'child.py')]
                sname += '+bare-name-on-PATH'
            elif how < 0.4:
                odd = os.path.join(d, rng.choice(['my prog', "it's", 'a"b', 'back\\slash', 'tab\there', 'x y  z']))
                os.makedirs(odd, exist_ok=True)
                script = os.path.join(odd, rng.choice(['run me', "child's", 'prog']))
                with open(script, 'w') as f:
                    f.write('#!/bin/sh\nexec /venv/bin/python %s "$@"\n' % os.path.join(HELPERS, 'child.py'))
                os.chmod(script, 0o755)
                prog = [script]
                if rng.random() < 0.6:
                    words = []
                sname += '+one-word-odd-path'
            with open(outf, 'wb') as of:
                r = subprocess.run(main + pre_opts + [rng.choice(['-r', '--run'])] + prog + words,
                                   input=b'quit\n', stdout=of, stderr=subprocess.PIPE, timeout=300, env=e3)
            ctx.ev()
            ctx.count('processes')
            ctx.count('run_mode_processes')
            ctx.setadd('schedules', sname)
            ctx.setadd('exit_statuses', status)
            sched = {'mode': '-r', 'schedule': sname, 'chunks': len(chunks), 'status': status, 'words': words, 'pre_opts': pre_opts}
            if extra_plan:
                ctx.count('runs_closing_stderr_early')
            if len(chunks) > 1 or status:
                ctx.sig([shash, sname, h64([len(c) for c, _ in chunks]), status])
            out_text = open(outf, 'rb').read().decode('utf-8', 'replace')
            if not os.path.exists(report):
                ctx.violation('child-not-started', 'child did not report; exit %d stderr %r' % (r.returncode, r.stderr[-300:]), dict(case, **sched))
                return
            repd = json.load(open(report))
            st = os.stat(outf)
            if prog[0] == 'vq-python' and repd.get('argv0') != 'vq-python':
                ctx.violation('run-argv', 'the program was named %r on the command line and started as %r' % (prog[0], repd.get('argv0')), dict(case, **sched))
            if repd['argv'] != words:
                ctx.violation('run-argv', 'child got %r, forwarded words are %r' % (repd['argv'], words), dict(case, **sched))
            if repd['WAYLAND_DEBUG'] != '1':
                ctx.violation('run-env', 'WAYLAND_DEBUG=%r in the child (options before the marker: %r)' % (repd['WAYLAND_DEBUG'], pre_opts), dict(case, **sched))
            if pre_opts:
                ctx.count('runs_with_libwayland_dir')
                if not (repd.get('LD_LIBRARY_PATH') or '').startswith(pre_opts[1]):
                    ctx.violation('run-env', 'LD_LIBRARY_PATH=%r in the child although --libwayland %r was given' % (repd.get('LD_LIBRARY_PATH'), pre_opts[1]), dict(case, **sched))
            if repd['stdout'] != [st.st_dev, st.st_ino]:
                ctx.violation('run-stdout-touched', "the child's stdout is not wayland-debug's stdout (fstat %r vs %r)" % (repd['stdout'], [st.st_dev, st.st_ino]), dict(case, **sched))
            if MARKER not in out_text:
                ctx.violation('run-stdout-lost', "the child's own stdout text is missing from wayland-debug's stdout", dict(case, **sched))
            if r.returncode != status:
                ctx.violation('run-exit-status', 'child exited %d, wayland-debug exited %d; stderr %r' % (status, r.returncode, r.stderr.decode('utf-8', 'replace')[-200:]), dict(case, **sched))
            if differs(normalise(out_text), 'run mode (%s, %d chunks)' % (sname, len(chunks)), sched):
                return
    except subprocess.TimeoutExpired as e:
        ctx.inconc('a process exceeded 300 s: %r' % (e.cmd[:6],))
    if len(ctx.samples) < 1:
        ctx.sample({'lines_head': lines[:3], 'n_lines': len(lines), 'bytes': len(data), 'final_newline': final_nl})


def thread_confinement(ctx, rng, cands, d):
    """run mode in-process (backends.libwayland_debug_output.run_program with recorded streams): the only other thread is the
    one that waits for the child; every call into the parser / connection manager / controller must happen on the thread
    that called run_program - that is the assumption under which none of the monitors needs a lock."""
    import threading
    from backends.libwayland_debug_output import parse, run_program
    from core import ConnectionManager, matcher
    from core.output import Output, stream
    from frontends.tui import Controller, Arguments, Mode
    seen = {}

    def wrap(cls, name):
        orig = getattr(cls, name)

        def f(self, *a, **k):
            seen.setdefault(cls.__name__ + '.' + name, set()).add(threading.get_ident())
            return orig(self, *a, **k)
        setattr(cls, name, f)
        return orig
    saved = [(parse.Parser, 'handle_message', wrap(parse.Parser, 'handle_message')), (ConnectionManager, 'message', wrap(ConnectionManager, 'message')),
             (Controller, 'connection_got_new_message', wrap(Controller, 'connection_got_new_message')), (Controller, 'process_command', wrap(Controller, 'process_command'))]
    try:
        lines = gen_stream(rng, cands)[:300]
        data = ('\n'.join(lines) + '\n').encode('utf-8')
        chunks, sname = gen_schedule(rng, data)
        status = rng.choice([0, 3, 77])
        planf = os.path.join(d, 'plan_tc.json')
        report = os.path.join(d, 'report_tc.json')
        json.dump({'report': report, 'stderr_chunks': [[c.hex(), dl] for c, dl in chunks], 'exit': status}, open(planf, 'w'))
        events = []

        class Rec(stream.Base):
            def override_write(self, string):
                events.append((threading.get_ident(), string))
        env.load_protocols()        # main.main() loads the protocol descriptions before it builds the pipeline
        env.reset_globals(False)
        out = Output(False, True, Rec(), Rec())
        cm = ConnectionManager()
        ctl = Controller(out, cm, matcher.always, matcher.never)
        args = Arguments(False, False, True, Mode.RUN, '', matcher.always, matcher.never, None, ['main.py'],
                         ['/venv/bin/python', os.path.join(HELPERS, 'child.py')])
        old = os.environ.get('VERIF_CHILD_PLAN')
        os.environ['VERIF_CHILD_PLAN'] = planf
        try:
            rc = run_program(out, args, cm, ctl, ctl, lambda prompt: 'quit')
        finally:
            if old is None:
                os.environ.pop('VERIF_CHILD_PLAN', None)
            else:
                os.environ['VERIF_CHILD_PLAN'] = old
        me = threading.get_ident()
        ctx.ev()
        ctx.count('in_process_run_mode_sessions')
        threads = set().union(*seen.values()) | {t for t, _ in events}
        ctx.count('calls_observed_for_thread_confinement', sum(1 for _ in events))
        ctx.setadd('show:threads_calling_into_the_pipeline', len(threads))
        case = {'lines': lines, 'mode': 'in-process run_program', 'schedule': sname}
        if threads != {me}:
            ctx.violation('thread-confinement', 'the pipeline was entered from threads %r, run_program was called on %r (%r)' % (
                sorted(threads), me, {k: sorted(v) for k, v in seen.items()}), case)
        if rc != status:
            ctx.violation('run-exit-status', 'run_program returned %r, the child exited %d' % (rc, status), case)
        ref = []
        for p in reference(lines):
            ref.append(p)
        got = [t for _, t in events]
        if got != ref:
            j = next((j for j in range(min(len(got), len(ref))) if got[j] != ref[j]), min(len(got), len(ref)))
            ctx.violation('display-differs', 'in-process run mode: item %d is %r, the reference has %r' % (j, got[j:j + 1], ref[j:j + 1]), case)
    finally:
        for cls, name, orig in saved:
            setattr(cls, name, orig)


def run(ctx, spec):
    env.setup()
    cands = wlxml.shipped(env.REPO)
    rng = ctx.rng
    d = tempfile.mkdtemp(prefix='verif-c13-')
    try:
        thread_confinement(ctx, rng, cands, d)
        for i in range(spec['n']):
            if spec['statuses'] == 'all' and i < 4:
                status = (spec['status_base'] + i) % 256
            else:
                status = rng.choice([0, 0, 1, 2, 3, 42, 99, 127, 128, 255])
            run_one(ctx, rng, cands, d, status)
            if ctx.out_of_time():
                break
    finally:
        import shutil
        shutil.rmtree(d, ignore_errors=True)


def finalize(m):
    if m['counters'].get('run_mode_processes', 0) == 0:
        return ['no run-mode process was executed']
    return []


def replay(ctx, case):
    env.setup()
    d = tempfile.mkdtemp(prefix='verif-c13-')
    try:
        lines = case['lines']
        data = ('\n'.join(lines) + ('\n' if case.get('final_newline', True) else '')).encode('utf-8')
        fn = os.path.join(d, 'stream.log')
        open(fn, 'wb').write(data)
        ref = []
        for p in reference(lines):
            ref += p.split('\n')
        e2 = dict(os.environ, LC_ALL='C.UTF-8')
        r = subprocess.run(['/venv/bin/python', os.path.join(env.REPO, 'main.py'), '-C', '-l', fn], input=b'quit\n', stdout=subprocess.PIPE, stderr=subprocess.PIPE, env=e2)
        got = normalise(r.stdout.decode('utf-8', 'replace'))
        for j in range(max(len(got), len(ref))):
            if got[j:j + 1] != ref[j:j + 1]:
                print('first difference at item', j, got[j:j + 1], ref[j:j + 1])
                break
        else:
            print('file mode equals the reference display; the stored case was mode', case.get('mode'), case.get('schedule'))
    finally:
        import shutil
        shutil.rmtree(d, ignore_errors=True)
