"""C05 - a matcher selects exactly the messages its documented meaning says.
Online monitor, cross product: expressions generated as ASTs from the documented grammar are rendered (4 renderings:
canonical, extra whitespace, redundant brackets, both), parsed and simplified by the real code exactly as every user
path does, and evaluated on real Message objects produced by the real pipeline from a multi-connection stream; every
definite value of the reference evaluator (vlib/mref.py) is compared.  Also: renderings of one AST must agree with each
other, and a documented-grammar expression must not be rejected."""
from .. import wlxml, streams, env, mgen, mref, printer, history
from ..session import Session
from ..runner import h64

PROPERTY = 'C05'
RULE = ('universe: 3-connection simulated stream (typed objects with several incarnations, labelled enums incl. bitfields, nils '
        'with and without declared type, new ids, delete_ids, zero-argument messages, strings with spaces/commas/brackets). '
        'expressions: atoms from the universe vocabulary and one edit away from it, all atom kinds at every level, lists / ! / '
        'brackets to depth 3, with and without connection part; 4 renderings each. distinct = AST shape signature + hash of '
        'text; non-trivial = expression that selects at least one and not all messages')
ASSUMPTIONS = ['vlib/mref.py is my reading of matchers.md; what the documentation leaves open evaluates to Unspecified and is not compared '
               '(DESIGN.md 3.3)', 'universe messages come from the real pipeline; their attribution is C02/C07\'s subject and is '
               're-checked against the ground truth before use']
REQUIRED = ['core/matcher.py:parse', 'core/matcher.py:MessagePattern.matches', 'core/matcher.py:MatcherList.matches',
            'core/matcher.py:ArgsMatcherList.matches', 'core/matcher.py:MessagePattern.simplify', 'core/matcher.py:MatcherList.simplify',
            'core/matcher.py:_parse_message_pattern', 'core/matcher.py:_parse_arg_value_matcher', 'core/matcher.py:WildcardMatcher.matches']


def plan(tier, seed):
    if tier == 'quick':
        return [{'exprs': 800, 'n_each': [60, 110]} for _ in range(16)]
    return [{'exprs': 5000, 'n_each': [80, 200]} for _ in range(64)]


def project(e, name, dialect):
    gt = e['rec']['gt']
    args = []
    for a in gt['argv']:
        a = dict(a)
        if a['kind'] == 'float':
            a['value'] = float(printer.render_fixed(a['value'], dialect).replace(',', '.')) if not dialect['new'] else a['value'] / 256.0
        args.append(a)
    return {'conn': name, 'target': gt['target'], 'name': e['rec']['name'], 'args': args, 'destroyed': gt['destroyed']}


def build_universe(ctx, rng, cands, n_each, deep=True):
    """-> (session, projections, tool messages) or None if the universe itself is not what the ground truth says"""
    from .. import objcheck
    if deep and rng.random() < 0.4:
        # ids that went through dozens of incarnations: labels with two letters (3aa, 3ab ...)
        st = streams.build(rng, cands, k=3, n_each=(n_each[0] + 60, n_each[1] + 120), tagged=True,
                           opts={'hot': 0.85, 'reuse_bias': 1.0, 'prompt_delete': 1.0, 'dead_mention': 0.3, 'prefer_fixed': 0.3})
        ctx.count('universes_with_deep_incarnations')
    else:
        st = streams.build(rng, cands, k=3, n_each=tuple(n_each), tagged=True, opts={'hot': rng.choice([0.08, 0.2]), 'dead_mention': 0.3, 'prefer_fixed': 0.35})
    s, probs = objcheck.run_stream(ctx, st, want=('C02', 'C03', 'C04'))
    if probs:
        ctx.inconc('universe stream is not attributed as the ground truth says (see C02/C04): %r' % (probs[0][:3],))
        return None
    projs = [project(e, st['names'][e['ci']], st['dialect']) for e in st['entries']]
    msgs = list(s.ctl.all_messages)
    if len(msgs) != len(projs):
        ctx.inconc('universe: %d recorded messages for %d lines' % (len(msgs), len(projs)))
        return None
    return st, s, projs, msgs


def evaluate(matcher_mod, text, msgs):
    """-> ('ok', [bool...]) | ('rejected', str) | ('crash', str)"""
    try:
        m = matcher_mod.parse(text).simplify()
    except RuntimeError as e:
        return ('rejected', str(e)[:200])
    except Exception as e:
        return ('crash', '%s: %r' % (type(e).__name__, e))
    try:
        return ('ok', [bool(m.matches(x)) for x in msgs])
    except Exception as e:
        return ('crash', 'matches: %s: %r' % (type(e).__name__, e))


HISTORY = []    # (new text, old text) pairs joined earlier in this process, the way `filter` / `breakpoint` commands do


def perturb(ctx, matcher_mod, rng, recent):
    """what a matcher means does not depend on which other matchers the session parsed and combined before: combine
    two earlier expressions the way Controller.parse_and_join does, discard the result and carry on"""
    if len(recent) < 2:
        return
    new, old = rng.sample(recent, 2)
    try:
        matcher_mod.join(matcher_mod.parse(new), matcher_mod.parse(old).simplify()).simplify()
    except RuntimeError:
        return
    except Exception as e:
        ctx.violation('matcher-crash', 'join(parse(%r), parse(%r).simplify()): %s: %r' % (new, old, type(e).__name__, e), {'text': new, 'history': [[new, old]], 'lines': []})
        return
    HISTORY.append([new, old])
    ctx.count('history_joins')


def check_expr(ctx, matcher_mod, ast, texts, projs, msgs, lines):
    ref = [mref.matcher_match(ast, p) for p in projs]
    n_def = sum(1 for r in ref if r is not None)
    n_true = sum(1 for r in ref if r is True)
    ctx.count('pairs', len(projs))
    ctx.count('pairs_definite', n_def)
    ctx.count('pairs_definite_true', n_true)
    results = []
    for t in texts:
        ctx.ev()
        kind, res = evaluate(matcher_mod, t, msgs)
        case = {'text': t, 'ast': ast, 'lines': lines, 'ref': ref, 'history': list(HISTORY)}
        if kind == 'rejected':
            ctx.count('rejected')
            ctx.violation('rejected', 'documented-grammar expression %r rejected: %s' % (t, res), case, reason=res)
            results.append(None)
            continue
        if kind == 'crash':
            ctx.violation('matcher-crash', '%r: %s' % (t, res), case)
            results.append(None)
            continue
        results.append(res)
        for i, (r, g) in enumerate(zip(ref, res)):
            if r is not None and r != g:
                ctx.violation('selection', '%r %s message %d %r, the documented meaning says it %s' % (
                    t, 'selects' if g else 'does not select', i, history.expected_text_of_proj(projs[i]) if False else lines[i][:160],
                    'does' if r else 'does not'), dict(case, message_index=i))
                break
    ok = [r for r in results if r is not None]
    for r, t in zip(results[1:], texts[1:]):
        if r is not None and results[0] is not None and r != results[0]:
            i = next(i for i in range(len(r)) if r[i] != results[0][i])
            ctx.violation('rendering-variance', 'renderings %r and %r of one expression differ on message %d %r' % (texts[0], t, i, lines[i][:160]),
                          {'text': t, 'text0': texts[0], 'ast': ast, 'lines': lines, 'message_index': i, 'ref': ref, 'history': list(HISTORY)})
            break
    return n_def, n_true, len(projs)


K1_PROBES = [('.%s(*)', 'zero-arg')]


def probe_known(ctx, matcher_mod, projs, msgs, lines):
    """fixed witnesses of recorded findings, so that they are reported (KNOWN-FINDING) while they exist"""
    # K1: a constant-true argument item is folded away: `.name(*)` selects a zero-argument message although no argument
    # satisfies the item
    for i, p in enumerate(projs):
        if not p['args']:
            t = '.%s(*)' % p['name']
            kind, res = evaluate(matcher_mod, t, msgs)
            if kind == 'ok' and res[i]:
                ctx.violation('const-true-arg-item', '%r selects the zero-argument message %r although every item of an argument list must be '
                              'satisfied by some argument' % (t, lines[i][:120]), {'text': t, 'lines': lines[:i + 1], 'message_index': i})
            ctx.count('k1_probe')
            return


def run(ctx, spec):
    env.setup()
    from core import matcher as matcher_mod
    cands = wlxml.shipped(env.REPO)
    rng = ctx.rng
    u = build_universe(ctx, rng, cands, spec['n_each'])
    if u is None:
        return
    st, s, projs, msgs = u
    lines = [e['line'] for e in st['entries']]
    vocab = mgen.vocab_of(projs)
    ctx.count('universe_messages', len(projs))
    for k in ('types', 'objs', 'labels', 'niltypes', 'strs'):
        ctx.count('vocab_' + k, len(vocab[k]))
    g = mgen.Gen(rng, vocab)
    probe_known(ctx, matcher_mod, projs, msgs, lines)
    recent = []
    for n in range(spec['exprs']):
        if n % 12 == 11:
            perturb(ctx, matcher_mod, rng, recent)
        ast = g.matcher()
        texts = [mgen.Render().matcher(ast),
                 mgen.Render(rng, ws=0.5).matcher(ast),
                 mgen.Render(rng, br=0.35).matcher(ast),
                 mgen.Render(rng, ws=0.4, br=0.3).matcher(ast)]
        n_def, n_true, n_all = check_expr(ctx, matcher_mod, ast, texts, projs, msgs, lines)
        recent.append(texts[0])
        del recent[:-40]
        sh = mgen.shape(ast)
        ctx.setadd('ast_shapes', h64(sh))
        if 0 < n_true < n_all:
            ctx.sig([sh, h64(texts[0])])
            ctx.count('expressions_selecting_some')
        if n_def < n_all:
            ctx.count('expressions_partly_unspecified')
        ctx.count('expressions')
        if len(ctx.samples) < 3 and 0 < n_true < n_all and n % 7 == 0:
            ctx.sample({'renderings': texts, 'selected': n_true, 'of': n_all, 'definite': n_def})
        if ctx.out_of_time():
            break


def finalize(m):
    c = m['counters']
    out = []
    if c.get('pairs_definite_true', 0) == 0:
        out.append('no (expression, message) pair with a definite True')
    if c.get('expressions', 0) and c.get('expressions_selecting_some', 0) < 0.1 * c['expressions']:
        out.append('fewer than 10% of the expressions select anything')
    return out


def replay(ctx, case):
    env.setup()
    from core import matcher as matcher_mod
    s = Session()
    s.feed([l + '\n' for l in case['lines']])
    msgs = list(s.ctl.all_messages)
    for new, old in case.get('history', []):
        try:
            matcher_mod.join(matcher_mod.parse(new), matcher_mod.parse(old).simplify()).simplify()
        except Exception as e:
            print('history join', repr(new), repr(old), '->', type(e).__name__, e)
    if case.get('history'):
        print('%d earlier joins replayed' % len(case['history']))
    for key in ('text0', 'text'):
        if key in case:
            kind, res = evaluate(matcher_mod, case[key], msgs)
            print(key, repr(case[key]), kind, res if kind != 'ok' else ('selects %d of %d' % (sum(res), len(res))))
            if kind == 'ok' and 'message_index' in case:
                print('   message', case['message_index'], case['lines'][case['message_index']], '->', res[case['message_index']])
            ctx.ev()
            if kind != 'ok':
                ctx.violation('rejected' if kind == 'rejected' else 'matcher-crash', '%r: %s' % (case[key], res), case)
            elif case.get('ref') and len(case['ref']) == len(res):
                bad = [i for i, (r, g) in enumerate(zip(case['ref'], res)) if r is not None and r != g]
                if bad:
                    ctx.violation('selection', '%r: selection differs from the stored reference at messages %r' % (case[key], bad[:8]), case)
            try:
                print('   simplified:', repr(matcher_mod.parse(case[key]).simplify()))
            except Exception as e:
                print('   ', e)
