"""C09 - GDB mode reports each libwayland closure faithfully, as log mode would.
Online monitor per closure (tier A): generated closures are materialised as C structures with libwayland's ABI in a
bounds-checked memory image, the frame chain libwayland would have at the plugin's breakpoint is built, and the
UNMODIFIED backends.gdb_plugin.extract.received_message() / sent_message() run on the ctypes-backed gdb module.  The
returned Message is compared with the closure (name, direction, sender id, interface, one argument per signature
entry in order, kinds and values; fixed exactly as wl_fixed_to_double; arrays element by element) and with what log
mode decodes from libwayland's own print-out of the same closure (port of wl_closure_print)."""
import math

from .. import env, printer, gdbsim
from ..runner import h64

PROPERTY = 'C09'
RULE = ('closures with 0..20 arguments over i u f s o n a h, pairwise kind adjacency with emphasis on arguments after an array (array lengths '
        '0..40 and byte sizes not divisible by 4), optional version prefix and ? markers in the signature, null and non-null strings and '
        'objects, typed and untyped objects / new ids, full int / fixed ranges; client and server side, sent and received (received '
        'new ids on the client are proxies). distinct = (side, direction, signature, null pattern); non-trivial = at least one argument')
ASSUMPTIONS = ['vlib/shim/gdb.py reproduces the gdb.Value semantics extract.py relies on (field offsets, pointer arithmetic, ptr[\'field\'] '
               'look-through, pointer->double reinterpretation); validated against real gdb by the tier-B run when built',
               'structure layouts are libwayland 1.23 LP64']
REQUIRED = ['backends/gdb_plugin/extract.py:extract_message', 'backends/gdb_plugin/extract.py:received_message',
            'backends/gdb_plugin/extract.py:sent_message', 'backends/gdb_plugin/extract.py:_fast_access']


def plan(tier, seed):
    if tier == 'quick':
        return [{'n': 5000, 'gdb_shim': True} for _ in range(12)] + [{'mode': 'tierb', 'scripts': 1, 'events': 400, 'gdb_shim': True} for _ in range(2)] + [{'mode': 'crossmode', 'n': 25, 'gdb_shim': True} for _ in range(2)]
    return [{'n': 30000, 'gdb_shim': True} for _ in range(48)] + [{'mode': 'tierb', 'scripts': 5, 'events': 500, 'gdb_shim': True} for _ in range(8)] + [{'mode': 'crossmode', 'n': 400, 'gdb_shim': True} for _ in range(8)]


def gen_case(rng, pairs):
    c = printer.gen_closure(rng, pairs)
    if rng.random() < 0.2:
        c['low_heap'] = True        # a program that is not position independent: its heap, and every proxy in it, lies below 4 GiB
    # emphasis: arguments after an array
    if rng.random() < 0.35:
        pos = rng.randint(0, min(19, len(c['args'])))
        c['args'].insert(pos, printer.gen_arg(rng, 'a'))
        if rng.random() < 0.04:
            # a closure too big for the wire still exists (and is handed to serialize_closure) before libwayland refuses to send it
            c['args'][pos] = {'k': 'a', 'data': [printer.gen_int(rng, True) for _ in range(rng.choice([1025, 1500, 4096, 16385]))]}
        if pos == len(c['args']) - 1 and len(c['args']) < 20:
            c['args'].append(printer.gen_arg(rng, rng.choice('iufsonh')))
        c['args'] = c['args'][:20]
    for a in c['args']:
        if a['k'] == 'o':
            # the declared interface (message->types[i]) is the object's own interface, or NULL (untyped)
            a['decl'] = None if rng.random() < 0.3 else (a['v']['iface'] if a['v'] is not None else rng.choice(printer.IFACES))
        if a['k'] == 'a' and rng.random() < 0.15:
            a['extra_bytes'] = rng.randint(1, 3)
        if a['k'] == 'n' and a['v'] == 0:
            a['v'] = 1
    c['sig'] = gdbsim.signature_of(rng, c)
    c['side'] = rng.choice(['client', 'server'])
    c['dir'] = rng.choice(['recv', 'send'])
    c['func'] = rng.choice(['wl_closure_invoke', 'wl_closure_dispatch']) if c['dir'] == 'recv' else rng.choice(['wl_closure_send', 'wl_closure_queue'])
    c['send'] = c['dir'] == 'send'
    c['queue'] = None
    c['conn'] = None
    return c


def expected(c):
    """[(kind, value...)] from the closure itself"""
    out = []
    proxies = c['dir'] == 'recv' and c['side'] == 'client'
    for a in c['args']:
        k = a['k']
        if k in 'iu':
            out.append(('int', a['v']))
        elif k == 'f':
            out.append(('float', a['v'] / 256.0))
        elif k == 's':
            out.append(('nil', None) if a['v'] is None else ('str', a['v']))
        elif k == 'o':
            out.append(('nil', a.get('decl')) if a['v'] is None else ('obj', (a.get('decl'), a['v']['id'])))
        elif k == 'n':
            out.append(('new', (a.get('iface'), a['v'])))
        elif k == 'a':
            out.append(('array', list(a['data'])))
        elif k == 'h':
            out.append(('fd', a['v']))
    return out


def decoded(wl, a):
    A = wl.Arg
    if isinstance(a, A.Int):
        return ('int', a.value)
    if isinstance(a, A.Float):
        return ('float', a.value)
    if isinstance(a, A.String):
        return ('str', a.value)
    if isinstance(a, A.Null):
        return ('nil', a.type)
    if isinstance(a, A.Object):
        return ('new' if a.is_new else 'obj', (a.obj.type, a.obj.id))
    if isinstance(a, A.Fd):
        return ('fd', a.value)
    if isinstance(a, A.Array):
        if a.values is None:
            return ('array', None)
        return ('array', [v.value if isinstance(v, A.Int) else repr(v) for v in a.values])
    return ('other', repr(a))


def run_case(ctx, c, world, sim, extract, wl, parse):
    g = world.gdb
    case = {'closure': c}
    ctx.ev()
    world.low_heap = bool(c.get('low_heap'))
    if world.low_heap:
        ctx.count('closures_in_a_heap_below_4GiB')
    conn = world.connection()
    proxies = c['dir'] == 'recv' and c['side'] == 'client'
    clo = world.closure(c, new_id_as_object=proxies)
    if c['dir'] == 'recv':
        if c['side'] == 'client':
            target = world.wl_object(c['iface'], c['id'], as_proxy=True)
            ev = {'kind': 'recv', 'side': 'client', 'closure': clo, 'target': target, 'display': world.display(conn), 'func': c['func']}
        else:
            client = world.client(conn)
            target = world.wl_object(c['iface'], c['id'], resource_client=client)
            ev = {'kind': 'recv', 'side': 'server', 'closure': clo, 'target': target, 'client': client, 'func': c['func']}
    else:
        ev = {'kind': 'send', 'closure': clo, 'connection': conn, 'func': c['func']}
    func, frame = sim.frames_for(ev)
    g.STATE.frame = frame
    try:
        conn_id, msg = extract.received_message() if c['dir'] == 'recv' else extract.sent_message()
    except BaseException as e:
        kind = 'extract-memory-error' if isinstance(e, g.MemoryError) else 'extract-exception'
        ctx.violation(kind, '%s: %r for signature %r (%s %s)' % (type(e).__name__, e, c['sig'], c['side'], c['dir']), case, sig=c['sig'])
        return
    probs = []
    if conn_id != 'gdb_conn:' + hex(conn):
        probs.append('connection id %r, the wl_connection is at %s' % (conn_id, hex(conn)))
    if msg.name != c['name'] or msg.sent != (c['dir'] == 'send') or msg.obj.id != c['id']:
        probs.append('header %r sent=%r id=%r' % (msg.name, msg.sent, msg.obj.id))
    if c['dir'] == 'recv' and msg.obj.type != c['iface']:
        probs.append('target interface %r != %r' % (msg.obj.type, c['iface']))
    if c['dir'] == 'send' and msg.obj.type not in (None, c['iface']):
        probs.append('target interface %r' % (msg.obj.type,))
    exp = expected(c)
    got = [decoded(wl, a) for a in msg.args]
    first_bad = None
    if len(exp) != len(got):
        probs.append('argument count %d, the signature %r has %d' % (len(got), c['sig'], len(exp)))
    else:
        for i, (e, x) in enumerate(zip(exp, got)):
            if e != x and not (e[0] == 'float' and x[0] == 'float' and e[1] == x[1]):
                probs.append('argument %d (%s): extracted %r, the closure holds %r' % (i, c['args'][i]['k'], x, e))
                first_bad = i
                break
    if probs:
        kinds = ''.join(a['k'] for a in c['args'])
        after_array = first_bad is not None and 'a' in kinds[:first_bad]
        null_string = first_bad is not None and c['args'][first_bad]['k'] == 's' and c['args'][first_bad]['v'] is None
        ctx.violation('extract-null-string' if null_string else ('extract-arg-after-array' if after_array else 'extract'),
                      '; '.join(probs) + ' [signature %r, %s %s]' % (c['sig'], c['side'], c['dir']), case, sig=c['sig'])
        return
    # ---- cross-mode: what log mode decodes from libwayland's own print-out of this closure -----------------------------
    line = printer.render(dict(c, iface=c['iface']), {'new': True, 'comma': False})
    try:
        _, lm = parse.message(line)
    except Exception as e:
        ctx.violation('cross-mode', 'log mode cannot decode libwayland\'s print-out %r: %r' % (line[:200], e), case)
        return
    lgot = [decoded(wl, a) for a in lm.args]
    bad = None
    if len(lgot) != len(got):
        bad = 'argument count %d vs %d' % (len(got), len(lgot))
    else:
        for i, (x, y) in enumerate(zip(got, lgot)):
            if x[0] != y[0]:
                bad = 'argument %d kind %s in GDB mode, %s in log mode' % (i, x[0], y[0])
            elif x[0] in ('int', 'str', 'fd') and x[1] != y[1]:
                bad = 'argument %d value %r vs %r' % (i, x[1], y[1])
            elif x[0] == 'float' and x[1] != y[1]:
                bad = 'argument %d fixed %r vs %r' % (i, x[1], y[1])
            elif x[0] in ('obj', 'new') and (x[1][1] != y[1][1] or (x[1][0] is not None and x[1][0] != y[1][0])):
                bad = 'argument %d object %r vs %r' % (i, x[1], y[1])
            if bad:
                break
    if lm.name != msg.name or lm.sent != msg.sent or lm.obj.id != msg.obj.id or (msg.obj.type is not None and lm.obj.type != msg.obj.type):
        bad = bad or 'header differs'
    if bad:
        ctx.violation('cross-mode', '%s | print-out %r' % (bad, line[:300]), case, sig=c['sig'])
        return
    if c['args']:
        ctx.sig([c['side'], c['dir'], c['sig'], [a['v'] is None for a in c['args'] if a['k'] in 'so']])
    for a in c['args']:
        ctx.count('arg_' + a['k'])
    kinds = ''.join(a['k'] for a in c['args'])
    if 'a' in kinds[:-1]:
        ctx.count('closures_with_argument_after_array')


def shim_extract(c, world, sim, extract, wl):
    """tier A result for one closure, in the same neutral form the tier-B driver logs"""
    g = world.gdb
    conn = world.connection()
    proxies = c['dir'] == 'recv' and c['side'] == 'client'
    clo = world.closure(c, new_id_as_object=proxies)
    if c['dir'] == 'recv':
        if c['side'] == 'client':
            ev = {'kind': 'recv', 'side': 'client', 'closure': clo, 'target': world.wl_object(c['iface'], c['id'], as_proxy=True), 'display': world.display(conn), 'func': c['func']}
        else:
            client = world.client(conn)
            ev = {'kind': 'recv', 'side': 'server', 'closure': clo, 'target': world.wl_object(c['iface'], c['id'], resource_client=client), 'client': client, 'func': c['func']}
    else:
        ev = {'kind': 'send', 'closure': clo, 'connection': conn, 'func': c['func']}
    func, frame = sim.frames_for(ev)
    g.STATE.frame = frame
    try:
        cid, msg = extract.received_message() if c['dir'] == 'recv' else extract.sent_message()
    except BaseException as e:
        return {'exc': '%s: %r' % (type(e).__name__, e)}
    return {'name': msg.name, 'sent': msg.sent, 'target': [msg.obj.type, msg.obj.id], 'args': [list(decoded(wl, a)) for a in msg.args]}


def norm(x):
    return json_norm(x)


def json_norm(x):
    if isinstance(x, (list, tuple)):
        return [json_norm(i) for i in x]
    if isinstance(x, dict):
        return {k: json_norm(v) for k, v in x.items()}
    return x


def run_tierb(ctx, spec):
    """real gdb 13 runs the unmodified plugin on the synthetic libwayland-ABI inferior; every closure's extraction must equal
    the closure, and must be IDENTICAL to what the ctypes shim (tier A) gives for the same closure"""
    from .. import gdbreal
    env.setup(spec)
    if not gdbreal.available():
        ctx.count('tierb_skipped_no_gdb_or_inferior')
        return
    world = gdbsim.World()
    from backends.gdb_plugin import extract
    from core import wl
    sim = gdbsim.Sim(world)
    rng = ctx.rng
    pairs = printer.all_pairs(rng)
    for sc in range(spec['scripts']):
        script = gdbreal.Script()
        conns = {'client': script.conn('client'), 'server': script.conn('server')}
        cases = {}
        for n in range(spec['events']):
            c = gen_case(rng, pairs)
            if c['name'] in ('delete_id', 'bind', 'set_app_id', 'set_title', 'get_layer_surface', 'get_registry'):
                c['name'] += '_x'
            for a in c['args']:
                if a['k'] == 's' and a['v'] is not None and len(a['v'].encode('utf-8')) > 30000:
                    a['v'] = a['v'][:8000]             # the inferior's script reader takes tokens of at most 64 kB
                if a['k'] == 'a' and len(a['data']) > 2000:
                    del a['data'][2000:]               # ... and so must an array's
            c['iface'] = 'vq_' + c['iface']      # the whole plugin runs in tier B: keep the random closures free of protocol semantics (bind, delete_id)
            # strings must survive a C string and gdb's target charset: no NUL, valid UTF-8 (the generator's strings are)
            seq = script.event(conns[c['side']], 1, c['dir'] == 'send', 0 if c['func'] in ('wl_closure_invoke', 'wl_closure_send') else 1,
                               c['iface'], c['id'], c['name'], c['sig'], c['args'])
            cases[seq] = c
        try:
            r = gdbreal.run(script, argv_opts=['-C'])
        except Exception as e:
            ctx.inconc('tier B run failed: %r' % (e,))
            return
        ctx.count('tierb_scripts')
        got = {x['seq']: x for x in r['records'] if x['t'] == 'extract'}
        excs = [x for x in r['records'] if x['t'] in ('extract-exception', 'load-exception')]
        if not any(x['t'] == 'loaded' for x in r['records']):
            ctx.inconc('tier B: the plugin did not load inside gdb: %s' % (r['stderr'][-400:],))
            return
        for x in excs:
            c = cases.get(x.get('seq'))
            ctx.violation('tierb-extract-exception', 'under real gdb: %s (signature %r)' % (x.get('exc'), c and c['sig']), {'closure': c, 'tier': 'B'})
        exited = [x for x in r['records'] if x['t'] == 'exited']
        inferior_ok = bool(exited) and exited[0].get('code') in (0, None)
        if not inferior_ok:
            ctx.inconc('tier B: the synthetic inferior did not run its script to the end (exit %r) - a harness problem, not a verdict: %s' % (
                exited and exited[0].get('code'), r['stdout'][-200:] + r['stderr'][-200:]))
        halts = [x for x in r['records'] if x['t'] == 'halt']
        if halts:
            ctx.violation('tierb-unexpected-halt', 'real gdb halted at events %r without a breakpoint matcher (an exception in stop()?) stderr: %s' % (
                [h['seq'] for h in halts][:5], r['stderr'][-300:]), {'tier': 'B'})
        for seq, c in cases.items():
            ctx.ev()
            b = got.get(seq)
            case = {'closure': c, 'tier': 'B'}
            if b is None:
                if not excs and inferior_ok:
                    ctx.violation('tierb-missing', 'event %d (signature %r) was not reported under real gdb' % (seq, c['sig']), case)
                continue
            world.mem.reset(); world.ifaces.clear(); world.strings.clear()
            a = shim_extract(c, world, sim, extract, wl)
            bb = {'name': b['name'], 'sent': b['sent'], 'target': b['target'], 'args': b['args']}
            if json_norm(a) != json_norm(bb):
                ctx.violation('shim-differs-from-gdb', 'signature %r: the ctypes shim gives %r, real gdb gives %r' % (c['sig'], a, bb), case)
                continue
            exp = [list(e) if not isinstance(e[1], tuple) else [e[0], list(e[1])] for e in expected(c)]
            if b['args'] != json_norm(exp) or b['name'] != c['name'] or b['sent'] != (c['dir'] == 'send') or b['target'][1] != c['id']:
                ctx.violation('tierb-extract', 'under real gdb, signature %r: extracted %r, the closure holds %r' % (c['sig'], b['args'], exp), case)
                continue
            ctx.count('tierb_closures_identical_in_both_tiers')
            ctx.sig(['B', c['side'], c['dir'], c['sig']])
            # C printf vs the Python port of wl_closure_print
            if not (c['dir'] == 'recv' and c['side'] == 'client' and any(x['k'] == 'n' for x in c['args'])):
                want = printer.render(dict(c, time_us=(1000 + seq) * 1000, send=c['dir'] == 'send'), {'new': True, 'comma': False})
                have = r['printout'].get(seq)
                ctx.count('printer_crosschecks')
                if have is not None and have != want:
                    ctx.violation('printer-port-differs', 'C wl_closure_print gives %r, the Python port %r' % (have[:200], want[:200]), case)
        # the sanitizer build of the inferior on the same script (harness hygiene: a bug in MY C code must not look like a plugin defect)
        try:
            rs = gdbreal.run(script, sanitize=True)
            ctx.count('sanitizer_runs')
            if rs['rc'] != 0:
                ctx.inconc('the inferior itself fails under ASan/UBSan (harness bug): %s' % rs['stderr'][-300:])
        except Exception:
            pass


def run_crossmode(ctx, spec):
    """the line GDB mode prints for a closure vs the line log mode prints for libwayland's rendering of the same closure:
    whole simulated histories go through both pipelines (plugin on the shim / log parser) and the two displays must be equal
    line by line - time column aside, and array contents aside (the print-out drops them)."""
    import re
    from .. import wlxml, streams, history, outline
    from ..session import Session
    env.setup(spec)
    cands = wlxml.shipped(env.REPO)
    rng = ctx.rng
    for n in range(spec['n']):
        st = streams.build(rng, cands, k=rng.randint(1, 3), n_each=(20, 120), tagged=True, dialect={'new': True, 'comma': False})
        gs = gdbsim.GdbSession()
        for ci in st['names']:
            gs.new_connection(ci, st['sides'][ci])
        gdb_lines = []
        for e in st['entries']:
            n0, _ = gs.mark()
            stop, exc = gs.deliver(gs.event_for(e['ci'], e['rec'], rng, 1))
            if exc is not None:
                ctx.violation('crossmode-exception', 'GDB mode raised %r at %r' % (exc, e['line'][:120]), {'lines': [x['line'] for x in st['entries']]})
                break
            gdb_lines.append([l for l in gs.written_since(n0) if outline.parse_line(l)['kind'] == 'msg'])
        else:
            s = Session()
            s.feed([e['line'] + '\n' for e in st['entries']])
            per = s.per_read()
            for i, e in enumerate(st['entries']):
                ctx.ev()
                log = [p for k, p in per.get(i, []) if k == 'out' and outline.parse_line(p)['kind'] == 'msg']
                a = [re.sub(r'\[[^\[\]]*\]', '[..]', re.sub(r' after -?\d+\.\d{4}s', '', l.strip().split(' ', 1)[1])) for l in gdb_lines[i]]
                b = [re.sub(r'\[[^\[\]]*\]', '[..]', re.sub(r' after -?\d+\.\d{4}s', '', l.strip().split(' ', 1)[1])) for l in log]
                has_str_brackets = any(x['k'] == 's' and x['v'] and ('[' in x['v'] or ']' in x['v']) for x in e['rec']['args'])
                if a != b and not has_str_brackets:
                    ctx.violation('crossmode-line', 'GDB mode shows %r, log mode shows %r for libwayland\'s print-out %r' % (a, b, e['line'][:200]),
                                  {'lines': [x['line'] for x in st['entries']], 'index': i})
                    break
            ctx.count('crossmode_histories')
            ctx.count('crossmode_lines', len(st['entries']))
            ctx.sig(['crossmode', h64([e['line'] for e in st['entries'][:30]])])


def run(ctx, spec):
    if spec.get('mode') == 'tierb':
        return run_tierb(ctx, spec)
    if spec.get('mode') == 'crossmode':
        return run_crossmode(ctx, spec)
    env.setup(spec)
    world = gdbsim.World()
    from backends.gdb_plugin import extract
    from backends.libwayland_debug_output import parse
    from core import wl
    sim = gdbsim.Sim(world)
    rng = ctx.rng
    pairs = printer.all_pairs(rng)
    for n in range(spec['n']):
        if n % 200 == 0:
            world.mem.reset()
            world.ifaces.clear()
            world.strings.clear()
        c = gen_case(rng, pairs)
        run_case(ctx, c, world, sim, extract, wl, parse)
        if n < 2:
            ctx.sample({'signature': c['sig'], 'side': c['side'], 'dir': c['dir'], 'print_out': printer.render(c, {'new': True, 'comma': False})[:200]})
        if ctx.out_of_time():
            break
    ctx.count('memory_reads', world.mem.reads)
    ctx.count('pairs_left_uncovered', len(pairs))


def finalize(m):
    out = []
    if m['counters'].get('tierb_skipped_no_gdb_or_inferior'):
        pass    # tier A still decides; the evidence says tier B was skipped
    if m['counters'].get('memory_reads', 0) == 0:
        out.append('the shim never served a memory read')
    if m['counters'].get('closures_with_argument_after_array', 0) == 0:
        out.append('no closure with an argument after an array was checked to the end')
    return out


def replay(ctx, case):
    env.setup({'gdb_shim': True})
    world = gdbsim.World()
    from backends.gdb_plugin import extract
    from backends.libwayland_debug_output import parse
    from core import wl
    run_case(ctx, case['closure'], world, gdbsim.Sim(world), extract, wl, parse)
    for v in ctx.violations:
        print(v['kind'], v['msg'])
