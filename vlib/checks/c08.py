"""C08 - no input line is lost, reordered or altered; output keeps pace with input.
Offline checker over the boundary event log (read / out events on a logical clock):
 * conservation + order + pace: the out events between read(k) and read(k+1) are exactly the items line k owes -
   a New notice if it is its connection's first message, then one decoded message line equal to the ground truth, or the
   line's own stripped text passed through (nothing under --supress);
 * prefix: for every cut point (every line boundary, and mid-line cuts of the last line) the output of the truncated
   input is the first items of the full output followed only by Closed notices;
 * thorough tier: the same on real processes (main.py -p with stdin closed early, -l on truncated files)."""
import re

from .. import wlxml, streams, env, outline, history, printer
from ..session import Session
from ..runner import h64
from .c01 import LIBERAL

PROPERTY = 'C08'
RULE = ('multi-connection well-formed streams with chatter inserted at random positions (plain text, blank, whitespace-only, '
        'bracket soup, 10kB lines, unicode, near misses of message lines - each certified message-free by a liberal recogniser), '
        'final line with and without newline, both --supress settings, both dialects; every line boundary as truncation point + '
        'mid-line cuts of the last line. distinct = hash of (input lines, supress); non-trivial = stream with chatter and >= 2 connections')
ASSUMPTIONS = ['lines are \\n-separated without \\r', 'the liberal recogniser (C01) certifies chatter message-free',
               'pace is decided on the logical clock at the Output boundary (stdout of a real process is block-buffered on a pipe)']
REQUIRED = ['backends/libwayland_debug_output/parse.py:Parser.parse_all', 'backends/libwayland_debug_output/parse.py:Parser.cleanup',
            'core/output/output.py:Output.unprocessed', 'core/output/output.py:Output.show']

CHATTER = ['page one\x0cpage two', 'a\x0bb', 'fs\x1cgs\x1drs\x1eus\x1f.', 'nel\x85here', 'ls\u2028ps\u2029end', 'y' * 70000, 'hello world', '', ' ', '\t \t', 'libEGL warning: DRI2: failed to authenticate', '[[[]]](())', '(gedit:1234): Gtk-WARNING **: 12:00:00.123: x',
           'x' * 10000, 'żółć → ↲ 日本語', '   indented text   ', '[12:00:00.123] not wayland', 'wl_surface@3.commit()', ' -> wl_display@1.sync(new id wl_callback@3)',
           '[1234.567]', '[1234.567]  -> ', '───┤ 1.0000s ├───', 'New client connection Z', '       |  already prefixed', 'Closed client connection A',
           '0.0000 A: wl_display@1a.sync()', '\x1b[31mred\x1b[0m', 'a\x00b', '\x0b\x0c', '%s %d {} {0}',
           # what libwayland itself prints next to the debug lines on a protocol error, and coloured logger output
           'wl_region@4: error 1: invalid rectangle', 'wl_display#1: error 0: invalid object 7', 'xdg_wm_base@5: error 3: xdg_surface has not been configured',
           'error in client communication (pid 1234)', 'wl_display@1: error 1: invalid method 9 (since 1 < 4), object wl_surface@3',
           '\x1b[1;31mERROR\x1b[0m: could not load theme', 'warn \x1b[33m!', '\x1b[0m', 'libwayland: \x1b[1mbold', 'Error: not ours', 'Warning: neither']


def plan(tier, seed):
    if tier == 'quick':
        return [{'n': 12, 'len': [10, 45], 'cuts': 'all'} for _ in range(14)] + [{'mode': 'proc', 'n': 4} for _ in range(2)]
    return [{'n': 40, 'len': [10, 120], 'cuts': 'all'} for _ in range(60)] + [{'mode': 'proc', 'n': 12} for _ in range(4)]


def build_input(rng, cands):
    k = rng.choice([1, 2, 2, 3])
    st = streams.build(rng, cands, k=k, n_each=(8, 40), tagged=(k > 1 or rng.random() < 0.3), opts={'titles': rng.choice([0.02, 0.12])} if rng.random() < 0.85 else
                       # a message line of several thousand characters (a long window title is a legal request)
                       {'titles': 0.25, 'app_pool': ['t' * 4090, 'long title ' * 420, 'w' * 9000, 'ordinary']})
    items = []      # [('msg', entry) | ('chat', text)]
    msg_lines = [e['line'] for e in st['entries']]
    for e in st['entries']:
        while rng.random() < 0.3:
            items.append(('chat', gen_chatter(rng, msg_lines)))
        if rng.random() < 0.06:
            # what libwayland writes for a string argument with a line break in it (a window title, surrounding text): the
            # message comes out torn over two or three lines, none of which is a message
            head = re.sub(r'^(\[[^\]]*\])\s*(\{[^}]*\})?\s*(<[^>]*>)?.*$', r'\1 \2 \3', e['line']).rstrip() if rng.random() < 0.7 else '[%10.3f]' % (rng.randint(0, 4000000) / 1000.0)
            sep = rng.choice('@#')
            tear = rng.choice([['%s  -> xdg_toplevel%s7.set_title("first line', 'second line")'],
                               ['%s zwp_text_input_v3%s9.set_surrounding_text("a', 'b', 'c", 1, 2)'],
                               ['%s  -> wl_registry%s2.bind(1, "wl_', 'compositor", 4, new id [unknown]%s30)' % sep],
                               ['%s wl_display%s1.error(wl_display%s1, 0, "invalid' % ('%s', '%s', sep), 'object 7")'],
                               ['%s  -> xdg_toplevel%s7.set_app_id("', '")']])
            group = [tear[0] % (head, sep)] + tear[1:]
            if all(not LIBERAL.search(t.strip()) for t in group):
                items += [('chat', t) for t in group]
        items.append(('msg', e))
    while rng.random() < 0.4:
        items.append(('chat', gen_chatter(rng, msg_lines)))
    return st, items


def gen_chatter(rng, msg_lines):
    for _ in range(20):
        r = rng.random()
        if r < 0.6:
            t = rng.choice(CHATTER)
        elif r < 0.85:
            from .c01 import near_miss
            t = near_miss(rng, rng.choice(msg_lines))
        else:
            t = ''.join(rng.choice('[]().,@#-> 0123456789abcxyz"{}<>\t') for _ in range(rng.randint(0, 50)))
        if rng.random() < 0.2:
            t = rng.choice(['  ', '\t', '']) + t + rng.choice(['  ', '\t', ''])
        if not LIBERAL.search(t.strip()) and '\n' not in t and '\r' not in t:
            return t
    return 'plain'


def expected_items(st, items, show_unprocessed):
    """per input line: list of expected out items: ('notice', name, role) / ('msg', text, floats) / ('pass', text)"""
    exp = []
    seen = set()
    for kind, x in items:
        cur = []
        if kind == 'chat':
            if show_unprocessed:
                cur.append(('pass', x.strip()))
        else:
            if x['ci'] not in seen:
                seen.add(x['ci'])
                cur.append(('notice', st['names'][x['ci']], streams.role_of(st, x['ci'])))
            cur.append(('msg', history.expected_text(x['rec'], x['side'], st['names'][x['ci']]), streams.exp_floats(x['rec'], st['dialect'])))
        exp.append(cur)
    return exp


def item_matches(exp, text, color=False):
    if color:
        # colour on: a passed-through line is the tool's prefix and the line's own text - escape sequences included, they are
        # part of that text - inside one pair of the tool's own sequences; everything else is compared with the tool's
        # sequences removed (C17 has the colours themselves)
        if exp[0] == 'pass':
            m = re.match(r'\x1b\[[\d;]*m', text)
            if not m:
                return False
            rest = text[m.end():]
            return item_matches(exp, rest) or (rest.endswith('\x1b[0m') and item_matches(exp, rest[:-4]))
        text = outline.strip_sgr(text)
    it = outline.parse_line(text)
    if exp[0] == 'pass':
        return text == outline.PASS_PREFIX + exp[1] or (text.startswith(outline.PASS_PREFIX) and text[len(outline.PASS_PREFIX):].strip() == exp[1].strip())
    if exp[0] == 'notice':
        return it['kind'] == 'notice' and it['what'] == 'New' and it['conn'] == exp[1] and it['role'] == exp[2]
    if exp[0] == 'msg':
        if it['kind'] != 'msg':
            return False
        prob, _, _ = streams.compare_line(text, exp[1], exp[2])
        return prob is None
    return False


def lines_of(items, final_newline=True):
    ls = [(x if k == 'chat' else x['line']) + '\n' for k, x in items]
    if not final_newline and ls:
        ls[-1] = ls[-1][:-1]
    return ls


def run_full(ctx, st, items, show_unprocessed, final_newline, case, color=False):
    s = Session(show_unprocessed=show_unprocessed, color=color)
    ls = lines_of(items, final_newline)
    s.feed(ls)
    exp = expected_items(st, items, show_unprocessed)
    case = dict(case, expected_items=[[list(w) for w in e] for e in exp])
    per = s.per_read()
    ok = True
    for idx, want in enumerate(exp):
        got = [p for k, p in per.get(idx, []) if k == 'out']
        got = [g for g in got if outline.parse_line(outline.strip_sgr(g) if color else g)['kind'] != 'sep']
        errs = [p for k, p in per.get(idx, []) if k == 'err']
        if errs:
            ctx.violation('error-stream', 'line %d produced on the error stream: %r' % (idx, errs[:2]), dict(case, first_bad_line=idx))
            ok = False
            break
        if len(got) != len(want) or not all(item_matches(w, g, color) for w, g in zip(want, got)):
            kind = 'conservation' if len(got) != len(want) else 'altered'
            if len(got) < len(want) and any(k == 'out' for j in range(idx + 1, len(exp)) for k, p in per.get(j, [])) and False:
                kind = 'pace'
            ctx.violation(kind, 'input line %d %r owes %r, produced before the next read: %r' % (
                idx, ls[idx][:120], [w[:2] for w in want], [g[:160] for g in got]), dict(case, first_bad_line=idx))
            ok = False
            break
    if ok:
        eof = [outline.parse_line(outline.strip_sgr(p) if color else p) for k, p in per.get('eof', []) if k == 'out']
        closed = sorted(i['conn'] for i in eof if i['kind'] == 'notice' and i['what'] == 'Closed')
        if closed != sorted(st['names'][x['ci']] for x in {x['ci']: x for k, x in items if k == 'msg'}.values()) or len(eof) != len(closed):
            ctx.violation('closed-notices', 'after the last line: %r' % [i['text'] for i in eof][:6], case)
            ok = False
    return s, ok


def out_items_plain(s):
    """the content items of the out stream (separators dropped: their presence depends only on times)"""
    res = []
    for k, p in s.events:
        if k == 'out':
            t = p
            if outline.parse_line(t)['kind'] != 'sep':
                res.append(t)
    return res


def run_cuts(ctx, st, items, show_unprocessed, full_session, spec, case):
    rng = ctx.rng
    ls = lines_of(items, True)
    full = out_items_plain(full_session)
    exp = expected_items(st, items, show_unprocessed)
    owed = [len(e) for e in exp]
    n = len(ls)
    cuts = list(range(0, n + 1))
    for p in cuts:
        s = Session(show_unprocessed=show_unprocessed)
        s.feed(ls[:p])
        got = out_items_plain(s)
        ctx.count('truncation_points')
        npre = sum(owed[:p])
        pre, tail = got[:npre], got[npre:]
        opened = {x['ci'] for k, x in items[:p] if k == 'msg'}
        want_closed = sorted(st['names'][ci] for ci in opened)
        tail_items = [outline.parse_line(t) for t in tail]
        if pre != full[:npre]:
            j = next((j for j in range(min(len(pre), npre)) if pre[j] != full[j]), min(len(pre), npre))
            ctx.violation('prefix', 'input cut after %d lines: item %d is %r, the full run has %r' % (p, j, pre[j:j + 1], full[j:j + 1]), dict(case, cut_lines=p))
            return
        if sorted(i['conn'] for i in tail_items if i['kind'] == 'notice' and i['what'] == 'Closed') != want_closed or len(tail_items) != len(want_closed):
            ctx.violation('prefix-tail', 'input cut after %d lines: after the prefix come %r, expected Closed notices for %r' % (p, tail[:5], want_closed), dict(case, cut_lines=p))
            return
    # the user interrupts (Ctrl-C) while the tool waits for the next line: same as the input stopping there
    for p in rng.sample(cuts, min(6, len(cuts))):
        def interrupt(sess, i, p=p):
            if i == p:
                raise KeyboardInterrupt()
        s = Session(show_unprocessed=show_unprocessed)
        try:
            s.feed(ls, before_read=interrupt)
        except KeyboardInterrupt:
            ctx.violation('interrupt-escapes', 'KeyboardInterrupt while reading line %d escaped the parser' % p, dict(case, cut_lines=p))
            return
        got = out_items_plain(s)
        ctx.count('interrupt_points')
        npre = sum(owed[:p])
        opened = {x['ci'] for k, x in items[:p] if k == 'msg'}
        tail_items = [outline.parse_line(t) for t in got[npre:]]
        if got[:npre] != full[:npre] or sorted(i['conn'] for i in tail_items if i['kind'] == 'notice' and i['what'] == 'Closed') != sorted(st['names'][ci] for ci in opened) or len(tail_items) != len(opened):
            ctx.violation('prefix-after-interrupt', 'interrupted before line %d: output is not the prefix of the full output followed by the Closed notices: %r' % (p, got[npre:][:4]), dict(case, cut_lines=p))
            return
    # mid-line cuts of a last line (several lines, several positions)
    for _ in range(6):
        p = rng.randrange(n)
        line = ls[p][:-1]
        if not line:
            continue
        c = rng.randint(1, len(line))
        frag = line[:c]
        s = Session(show_unprocessed=show_unprocessed)
        s.feed(ls[:p] + [frag])        # no trailing newline: input stops mid-line
        got = out_items_plain(s)
        ctx.count('midline_cuts')
        npre = sum(owed[:p])
        if got[:npre] != full[:npre]:
            ctx.violation('prefix', 'input cut inside line %d: prefix differs' % p, dict(case, cut_lines=p, cut_chars=c))
            return
        tail = got[npre:]
        if c == len(line):
            # the whole last line arrived, only its newline is missing: it owes exactly what it owes in the full run
            want = full[npre:npre + owed[p]]
            rest = tail[len(want):]
            if tail[:len(want)] != want:
                ctx.violation('last-line-without-newline', 'last line %r without its newline produced %r, with newline %r' % (line[:100], tail[:3], want), dict(case, cut_lines=p, cut_chars=c))
                return
        else:
            rest = tail
            if not LIBERAL.search(frag.strip()):
                want = [outline.PASS_PREFIX + frag.strip()] if show_unprocessed else []
                got_frag = [t for t in rest if outline.parse_line(t)['kind'] not in ('notice',)]
                if got_frag != want:
                    ctx.violation('partial-line', 'partial last line %r produced %r, expected %r' % (frag[:100], got_frag[:3], want), dict(case, cut_lines=p, cut_chars=c))
                    return


def run(ctx, spec):
    if spec.get('mode') == 'proc':
        return run_proc(ctx, spec)
    env.setup()
    cands = wlxml.shipped(env.REPO)
    rng = ctx.rng
    for i in range(spec['n']):
        st, items = build_input(rng, cands)
        if len(items) > spec['len'][1] * 2:
            items = items[:spec['len'][1] * 2]
            # keep per-connection well-formedness: truncating a stream keeps prefixes of every connection
        sup = rng.random() < 0.5
        fin = rng.random() < 0.6
        if not fin and items and items[-1][0] == 'chat' and items[-1][1] == '':
            fin = True      # an empty last line without newline is no line at all
        ls = lines_of(items, fin)
        case = {'lines': ls, 'supress': sup}
        s, ok = run_full(ctx, st, items, not sup, fin, case)
        ctx.ev(len(items))
        ctx.count('streams')
        ctx.count('chatter_lines', sum(1 for k, x in items if k == 'chat'))
        ctx.count('message_lines', sum(1 for k, x in items if k == 'msg'))
        if st['k'] >= 2 and any(k == 'chat' for k, x in items):
            ctx.sig([h64(ls), sup])
        if ok and i % 3 == 0:
            # the same input with the tool's colours on (a terminal): the items owed are the same
            s2, ok = run_full(ctx, st, items, not sup, fin, dict(case, color=True), color=True)
            ctx.count('streams_also_run_with_colour_on')
        if ok:
            if not fin:
                s, ok = run_full(ctx, st, items, not sup, True, case)
            run_cuts(ctx, st, items, not sup, s, spec, case)
        if len(ctx.samples) < 1:
            ctx.sample({'input_head': [l[:100] for l in ls[:6]], 'supress': sup, 'final_newline': fin, 'lines': len(ls)})
        if ctx.out_of_time():
            break


def run_proc(ctx, spec):
    """real processes: main.py -p with stdin closed early; -l on truncated files"""
    import os
    import subprocess
    import tempfile
    env.setup()
    cands = wlxml.shipped(env.REPO)
    rng = ctx.rng
    d = tempfile.mkdtemp(prefix='verif-c08-')
    try:
        for i in range(spec['n']):
            st, items = build_input(rng, cands)
            items = items[:60]
            sup = rng.random() < 0.5
            ls = lines_of(items, True)
            # lines must be encodable and free of NUL for a text pipe
            if any('\x00' in l for l in ls):
                ls = [l.replace('\x00', '') for l in ls]
            full = None
            for p in [len(ls)] + sorted(rng.sample(range(len(ls)), min(5, len(ls)))):
                data = ''.join(ls[:p]).encode('utf-8')
                mode = rng.choice(['-p', '-l'])
                args = ['/venv/bin/python', os.path.join(env.REPO, 'main.py'), '-C'] + (['--supress'] if sup else [])
                e2 = dict(os.environ, PYTHONIOENCODING='utf-8', LC_ALL='C.UTF-8')
                if mode == '-p':
                    r = subprocess.run(args + ['-p'], input=data, stdout=subprocess.PIPE, stderr=subprocess.PIPE, timeout=120, env=e2)
                else:
                    fn = os.path.join(d, 'in.log')
                    with open(fn, 'wb') as f:
                        f.write(data)
                    r = subprocess.run(args + ['-l', fn], input=b'quit\n', stdout=subprocess.PIPE, stderr=subprocess.PIPE, timeout=120, env=e2)
                ctx.count('processes')
                ctx.ev()
                out = r.stdout.decode('utf-8', 'replace').split('\n')
                out = [o for o in out if o and not o.startswith('wl debug $') and outline.parse_line(o)['kind'] != 'sep']
                out = [re.sub(r'^wl debug \$ ', '', o) for o in out]
                case = {'lines': ls[:p], 'supress': sup, 'mode': mode}
                if r.returncode != 0:
                    ctx.violation('proc-exit', '%s exit %d: %s' % (mode, r.returncode, r.stderr.decode('utf-8', 'replace')[-300:]), case)
                    break
                if full is None:
                    full = out
                    continue
                closed = [o for o in out if o.startswith('Closed ')]
                body = [o for o in out if not o.startswith('Closed ')]
                fullbody = [o for o in full if not o.startswith('Closed ')]
                if body != fullbody[:len(body)]:
                    ctx.violation('proc-prefix', '%s cut after %d lines: output is not a prefix of the full output' % (mode, p), case)
                    break
            ctx.sig(['proc', h64(ls), sup])
            if i % 2 == 0:
                pace_through_fifo(ctx, rng, d, ls, sup, ['-l', '-p'][(i // 2) % 2])
    finally:
        import shutil
        shutil.rmtree(d, ignore_errors=True)


def pace_through_fifo(ctx, rng, d, ls, sup, mode):
    """keeping pace with a source that is still open: the log arrives through a named pipe (`-l FIFO`) or standard input (`-p`), one
    line at a time; the item a line owes must show up while the source is still open and nothing more has been written.  The
    verdict is not a wall-clock deadline: a line counts as not answered only when the tool has been IDLE (no CPU time
    consumed, blocked on its input) for three seconds in a row after the line was written."""
    import fcntl
    import os
    import subprocess
    import time
    msg_lines = [l for l in ls if l.strip() and not l.isspace()][:12]
    if len(msg_lines) < 3:
        return
    fifo = os.path.join(d, 'in.fifo')
    if os.path.exists(fifo):
        os.unlink(fifo)
    args = ['/venv/bin/python', os.path.join(env.REPO, 'main.py'), '-C'] + (['--supress'] if False else [])
    e2 = dict(os.environ, PYTHONIOENCODING='utf-8', LC_ALL='C.UTF-8')
    if mode == '-l':
        os.mkfifo(fifo)
        p = subprocess.Popen(args + ['-l', fifo], stdin=subprocess.PIPE, stdout=subprocess.PIPE, stderr=subprocess.DEVNULL, env=e2)
        w = os.open(fifo, os.O_WRONLY)
    else:
        p = subprocess.Popen(args + ['-p'], stdin=subprocess.PIPE, stdout=subprocess.PIPE, stderr=subprocess.DEVNULL, env=e2)
        w = p.stdin.fileno()
    fl = fcntl.fcntl(p.stdout.fileno(), fcntl.F_GETFL)
    fcntl.fcntl(p.stdout.fileno(), fcntl.F_SETFL, fl | os.O_NONBLOCK)
    from ..runner import proc_cpu_s
    got = b''
    case = {'lines': msg_lines, 'supress': False, 'mode': mode + ' (source kept open, one line at a time)'}
    try:
        for n, line in enumerate(msg_lines):
            os.write(w, line.encode('utf-8', 'replace'))
            before = got.count(b'\n')
            idle_since = None
            cpu0 = proc_cpu_s(p.pid)
            t_end = time.time() + 120
            answered = False
            while time.time() < t_end:
                try:
                    chunk = p.stdout.read()
                except BlockingIOError:
                    chunk = None
                if chunk:
                    got += chunk
                if got.count(b'\n') > before:
                    answered = True
                    break
                if p.poll() is not None:
                    break
                time.sleep(0.05)
                cpu = proc_cpu_s(p.pid)
                if cpu is not None and cpu0 is not None and cpu - cpu0 < 0.02:
                    idle_since = idle_since or time.time()
                    if time.time() - idle_since > 3.0:
                        break
                else:
                    idle_since = None
                    cpu0 = cpu
            ctx.ev()
            if not answered:
                if p.poll() is not None:
                    ctx.violation('proc-exit', '%s: the tool exited (status %r) while its input was still open, after line %d' % (mode, p.returncode, n), case)
                elif idle_since is not None and time.time() - idle_since > 3.0:
                    ctx.violation('pace', '%s with the source still open: line %d %r was written, the tool then sat idle for 3 s without producing the item it owes '
                                  '(%d lines of output so far)' % (mode, n, line[:100], before), case)
                else:
                    ctx.inconc('pace probe: no answer to line %d within 120 s and the tool was not idle' % n)
                return
        ctx.count('lines_answered_while_the_source_was_open', len(msg_lines))
        ctx.count('pace_probes')
    finally:
        try:
            if mode == '-l':
                os.close(w)
                p.stdin.write(b'quit\n')
            p.stdin.close()
        except Exception:
            pass
        try:
            p.wait(timeout=60)
        except Exception:
            p.kill()


def replay(ctx, case):
    env.setup()
    ls = case['lines']
    if case.get('expected_items') and 'cut_lines' not in case:
        col = bool(case.get('color'))
        s = Session(show_unprocessed=not case.get('supress'), color=col)
        s.feed(ls)
        per = s.per_read()
        for idx, want in enumerate(case['expected_items']):
            got = [p for k, p in per.get(idx, []) if k == 'out' and outline.parse_line(outline.strip_sgr(p) if col else p)['kind'] != 'sep']
            ctx.ev()
            if len(got) != len(want) or not all(item_matches(tuple(w), g, col) for w, g in zip(want, got)):
                ctx.violation('conservation', 'input line %d %r owes %r, produced %r' % (idx, ls[idx][:120], [w[:2] for w in want], [g[:160] for g in got]), case)
                break
    if 'cut_lines' in case:
        ls = ls[:case['cut_lines']] + ([ls[case['cut_lines']][:case['cut_chars']]] if 'cut_chars' in case else [])
    s = Session(show_unprocessed=not case.get('supress'), color=bool(case.get('color')))
    s.feed(ls)
    for k, p in s.events[-40:]:
        print(k, repr(p)[:200])
