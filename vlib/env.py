"""Puts the repository under test (VERIF_REPO, default /repo) on sys.path and resets its process globals."""
import os
import sys
import logging

REPO = os.environ.get('VERIF_REPO', '/repo')
VERIF = os.path.dirname(os.path.dirname(os.path.abspath(__file__)))
_loaded = False


def setup(spec=None):
    if REPO not in sys.path:
        sys.path.insert(0, REPO)
    if spec and spec.get('gdb_shim'):
        shim = os.path.join(VERIF, 'vlib', 'shim')
        if shim not in sys.path:
            sys.path.insert(1, shim)
    logging.basicConfig()
    logging.getLogger().setLevel(logging.CRITICAL + 1)


class LogCounter(logging.Handler):
    """The repository reports attribution failures through logging; count records by logger/level."""
    def __init__(self):
        super().__init__(level=0)
        self.counts = {}
        self.last = []

    def emit(self, record):
        k = '%s:%s' % (record.name, record.levelname)
        self.counts[k] = self.counts.get(k, 0) + 1
        if len(self.last) < 5:
            try:
                self.last.append(record.getMessage()[:300])
            except Exception:
                pass


_counter = None


def log_counter():
    global _counter
    if _counter is None:
        _counter = LogCounter()
        root = logging.getLogger()
        root.addHandler(_counter)
        for h in list(root.handlers):
            if h is not _counter:
                root.removeHandler(h)
        root.setLevel(logging.WARNING)
    return _counter


def load_protocols():
    """protocol.load_all once per worker (as main.main does at start-up)."""
    global _loaded
    from core.wl import protocol
    from core.output import Output, stream
    if not _loaded:
        protocol.load_all(Output(False, False, stream.Null(), stream.Null()))
        _loaded = True
    return protocol


def reset_globals(color=False):
    from core import wl
    from core.util import set_color_output
    wl.Message.base_time = None
    set_color_output(bool(color))
