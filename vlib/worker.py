"""One shard in one fresh interpreter: import the repository from the working tree, run, dump JSON."""
import json
import os
import sys
import traceback


def main():
    spec_path, out_path = sys.argv[1], sys.argv[2]
    with open(spec_path) as f:
        job = json.load(f)
    from . import runner, env, cover
    env.setup(job['spec'])
    chk = runner.load_check(job['prop'])
    try:
        # die with the runner: an interrupted run must not leave workers behind
        import ctypes
        import signal
        ctypes.CDLL(None).prctl(1, signal.SIGKILL)      # PR_SET_PDEATHSIG
    except Exception:
        pass
    ctx = runner.Ctx(job['prop'], job['tier'], job['seed'], job['spec'])
    # this interpreter runs with the pinned hash seed it was started with (reproducible workloads); the processes a check starts
    # (main.py, gdb) get another one, different per shard, as a user's processes do: nothing displayed may depend on it (D17)
    os.environ['PYTHONHASHSEED'] = str(1 + int(runner.h64([job['prop'], job['seed'], job['spec'].get('shard', 0), 'hashseed']), 16) % (2 ** 31))
    ctx.hb_fd = os.open(out_path + '.hb', os.O_RDWR | os.O_CREAT | os.O_TRUNC, 0o600)
    cov = cover.Cover(env.REPO)
    cov.start()
    try:
        if 'replay_case' in job['spec']:
            chk.replay(ctx, job['spec']['replay_case'])
        else:
            chk.run(ctx, job['spec'])
    except Exception:
        ctx.inconc('harness exception in shard %s:\n%s' % (job['spec'].get('shard'), traceback.format_exc()[-2500:]))
    finally:
        cov.stop()
    for r in cov.reached():
        ctx.setadd('reached', r, cap=100000)
    res = ctx.result()
    tmp = out_path + '.tmp'
    with open(tmp, 'w') as f:
        json.dump(res, f, default=repr)
    os.replace(tmp, out_path)


if __name__ == '__main__':
    main()
