"""Matcher expressions from the documented grammar as ASTs (see vlib/mref.py for the AST), with a renderer that can
vary whitespace and add redundant brackets.  Atoms are drawn from the universe's own vocabulary (so they hit) and near
it (so they miss by one character)."""
import re

from . import history

IDENT = re.compile(r'^[\*\-_A-Za-z0-9]+$')


def numeric_looking(w):
    for f in (int, float):
        try:
            f(w)
            return True
        except ValueError:
            pass
    return False


def ok_word(w):
    return bool(w) and IDENT.match(w) is not None and not numeric_looking(w) and w != 'nil' and not w[0].isdigit()


def vocab_of(projs):
    v = {'conns': set(), 'types': set(), 'objs': set(), 'names': set(), 'argnames': set(), 'ints': set(), 'floats': set(),
         'strs': set(), 'labels': set(), 'niltypes': set()}
    for m in projs:
        v['conns'].add(m['conn'])
        objs = [m['target']] + ([m['destroyed']] if m['destroyed'] else [])
        v['names'].add(m['name'])
        for a in m['args']:
            if a['name']:
                v['argnames'].add(a['name'])
            k = a['kind']
            if k == 'int':
                v['ints'].add(a['value'])
                for l in a['labels'] or []:
                    v['labels'].add(l)
            elif k == 'float':
                v['floats'].add(a['value'])
            elif k == 'str':
                if '"' not in a['value'] and '\x1b' not in a['value']:
                    v['strs'].add(a['value'])
            elif k == 'nil' and a['nil_type']:
                v['niltypes'].add(a['nil_type'])
            elif k in ('obj', 'new'):
                objs.append(a['obj'])
        for o in objs:
            v['objs'].add(tuple(o))
            if o[0]:
                v['types'].add(o[0])
    res = {k: sorted(x, key=str) for k, x in v.items()}
    # whole messages too: patterns "one edit away from a message of the universe" are built from them
    res['msgs'] = [m for m in projs if m['args']][:400]
    return res


class Gen:
    def __init__(self, rng, vocab, depth=3, allow_never=None):
        self.rng = rng
        self.v = vocab
        self.depth = depth
        # `[!]` components make a whole pattern constant; the accumulation model (joinref) does not fold constants, so the
        # command-sequence checks (depth-1 generators) do not use them
        self.allow_never = (depth >= 2) if allow_never is None else allow_never

    # ------------------------------------------------------------ words
    def near(self, w):
        r = self.rng.random()
        if len(w) >= 4 and self.rng.random() < 0.06:
            # three stars around two pieces of the word that share a character (or, half of the time, do not): `*ab*bc*` is not `abc`
            j = self.rng.randint(1, len(w) - 2)
            i = self.rng.randint(0, j - 1)
            k = self.rng.randint(j + 1, len(w) - 1)
            a, b = w[i:j + 1], (w[j:k + 1] if self.rng.random() < 0.6 else w[j + 1:k + 1])
            if a and b:
                return '*' + a + '*' + b + '*'
        if r < 0.45 or len(w) < 2:
            return w
        if r < 0.55:
            return w[:-1]
        if r < 0.62:
            return w + self.rng.choice('xs_1')
        if r < 0.7:
            return w[1:]
        i = self.rng.randint(1, len(w) - 1)
        j = self.rng.randint(i, len(w))
        if r < 0.8:
            return w[:i] + '*'
        if r < 0.87:
            return '*' + w[i:]
        if r < 0.94:
            return w[:i] + '*' + w[j:]
        return '*' + w[i:j] + '*'

    def word(self, pool, fallback='zz_none'):
        for _ in range(10):
            w = self.near(self.rng.choice(pool)) if pool else fallback
            if ok_word(w) or (w and IDENT.match(w) and '*' in w and not numeric_looking(w.replace('*', '1')) and w != '*'):
                return w
        return fallback

    def wl(self, pool, depth=None, allow_star=False):
        depth = self.depth if depth is None else depth
        r = self.rng.random()
        if r > 0.985 and self.allow_never:
            return {'never': True}
        if depth > 0 and r < 0.22:
            return self.list_of(lambda: self.wl(pool, depth - 1))
        if allow_star and r < 0.27:
            return {'w': '*'}
        return {'w': self.word(pool)}

    def list_of(self, f, allow_empty_pos=False):
        r = self.rng.random()
        npos = self.rng.choice([1, 2, 2, 3])
        nneg = 0 if r < 0.55 else self.rng.choice([1, 1, 2])
        if allow_empty_pos and nneg and self.rng.random() < 0.15:
            npos = 0
        return {'pos': [f() for _ in range(npos)], 'neg': [f() for _ in range(nneg)]}

    # ------------------------------------------------------------ objects
    def ospec(self, depth=None):
        depth = self.depth if depth is None else depth
        r = self.rng.random()
        if r > 0.985 and self.allow_never:
            return {'never': True}
        if depth > 0 and r < 0.18:
            return self.list_of(lambda: self.ospec(depth - 1), allow_empty_pos=True)
        if r < 0.55:
            return {'type': self.word(self.v['types'])}
        o = self.rng.choice(self.v['objs'])
        oid = o[1] if self.rng.random() < 0.85 else o[1] + self.rng.choice([1, -1, 100])
        if oid < 1:
            oid = 1
        r2 = self.rng.random()
        if r2 < 0.4:
            gen = None
        elif r2 < 0.85:
            gen = o[2]
        else:
            gen = o[2] + self.rng.choice([1, 1, 26, 27])
        return {'id': oid, 'gen': gen, 'at': self.rng.random() < 0.1}

    # ------------------------------------------------------------ argument values
    def val(self, depth=None):
        depth = self.depth if depth is None else depth
        v = self.v
        r = self.rng.random()
        if r > 0.97 and self.allow_never:
            return {'never': True}
        if depth > 0 and r < 0.15:
            return self.list_of(lambda: self.val(depth - 1))
        kinds = []
        if v['ints']:
            kinds += ['int'] * 3
        if v['floats']:
            kinds += ['float'] * 2
        if v['strs']:
            kinds += ['str'] * 2
        if v['labels']:
            kinds += ['label'] * 2
        kinds += ['type', 'nil', 'oid', 'niltype']
        k = self.rng.choice(kinds)
        if k == 'int':
            n = self.rng.choice(v['ints'])
            return {'int': n if self.rng.random() < 0.8 else n + self.rng.choice([1, -1])}
        if k == 'float':
            f = self.rng.choice(v['floats'])
            if self.rng.random() < 0.2:
                f += 0.5
            elif self.rng.random() < 0.25:
                # the value as somebody would type it from the display: cut to one or two decimals (another number, unless the
                # value happens to have no more decimals than that)
                f = float(('%.2f' if self.rng.random() < 0.7 else '%.1f') % f)
            t = repr(float(f))
            if 'e' in t or 'inf' in t or 'nan' in t:
                t = '1.5'
            if self.rng.random() < 0.2:
                t += '0'
            return {'float': t}
        if k == 'str':
            s = self.rng.choice(v['strs'])
            odd = [x for x in v['strs'] if '  ' in x or '\t' in x]
            if odd and self.rng.random() < 0.25:
                s = self.rng.choice(odd)     # whitespace inside the quotes must reach the matcher untouched
            if self.rng.random() < 0.2:
                s = s + 'x'
            return {'str': s}
        if k == 'label':
            return {'word': self.word(v['labels'], 'zz_label')}
        if k == 'type':
            return {'word': self.word(v['types'])}
        if k == 'niltype':
            return {'word': self.word(v['niltypes'] or v['types'])}
        if k == 'nil':
            return {'nil': True}
        o = self.rng.choice(v['objs'])
        return {'oid': o[1], 'gen': None if self.rng.random() < 0.4 else o[2] + (0 if self.rng.random() < 0.8 else 1)}

    def item(self, depth=None):
        depth = self.depth if depth is None else depth
        r = self.rng.random()
        if depth > 0 and r < 0.15:
            return self.list_of(lambda: self.item(depth - 1))
        r = self.rng.random()
        if r < 0.04 and self.allow_never:
            return {'name': None, 'value': {'word': '*'}}        # `*`: any argument (finding K1 territory when there is none)
        if r < 0.3:
            return {'name': self.wl(self.v['argnames'] or ['x'], 1), 'value': None}
        if r < 0.65:
            return {'name': None, 'value': self.val()}
        return {'name': self.wl(self.v['argnames'] or ['x'], 1), 'value': self.val()}

    def arglist(self):
        r = self.rng.random()
        npos = self.rng.choice([0, 1, 1, 1, 2, 3]) if r < 0.9 else 1
        nneg = 0 if self.rng.random() < 0.65 else self.rng.choice([1, 2])
        if npos == 0 and nneg == 0:
            npos = 1
        res = {'pos': [self.item() for _ in range(npos)], 'neg': [self.item() for _ in range(nneg)]}
        if self.rng.random() < 0.12:
            # two items of one list that print alike and mean different things: "5" and 5, "wl_seat" and wl_seat
            side = self.rng.choice(['pos', 'pos', 'neg'])
            cands = [it for it in res[side] if 'pos' not in it and it.get('value') is not None]
            if cands:
                t = self.twin({'args': {'pos': [self.rng.choice(cands)], 'neg': []}})
                if t is not None:
                    res[side].insert(self.rng.randrange(len(res[side]) + 1), t['args']['pos'][0])
        return res

    # ------------------------------------------------------------ patterns
    def near_value(self, a):
        """the value of a real argument, or one keystroke / one rounding away from it"""
        rng = self.rng
        k = a['kind']
        exact = rng.random() < 0.45
        if k == 'int':
            labs = [l for l in (a['labels'] or []) if ok_word(l)]       # (`(none)`, `INVALID ENUM VALUE`, `90` cannot be written as a word)
            if labs and rng.random() < 0.4:
                return {'word': rng.choice(labs) if exact else self.word(labs, 'zz_label')}
            return {'int': a['value'] if exact else a['value'] + rng.choice([1, -1, 10, -a['value'] * 2 if a['value'] else 1])}
        if k == 'float':
            f = a['value']
            if not exact:
                f = rng.choice([float('%.2f' % f), float('%.1f' % f), float(int(f)), f + 1 / 256.0, f - 1 / 256.0, -f, round(f, 3)])
            t = repr(float(f))
            return {'float': t} if 'e' not in t and 'n' not in t else None
        if k == 'str':
            sv = a['value']
            if '"' in sv or '\x1b' in sv or '\\' in sv:
                return None
            if not exact:
                sv = rng.choice([sv + ' ', sv[:-1], sv + 'x', sv.lower(), sv.upper(), ' ' + sv]) if sv else 'x'
            return {'str': sv}
        if k == 'nil':
            return {'nil': True} if exact or not a['nil_type'] else {'word': a['nil_type']}
        if k in ('obj', 'new') and a['obj'] and a['obj'][1]:
            o = a['obj']
            if rng.random() < 0.35 and o[0] and ok_word(o[0]):
                return {'word': o[0] if exact else self.word([o[0]])}
            return {'oid': o[1], 'gen': rng.choice([None, o[2], o[2]]) if exact else o[2] + 1}
        return None

    def from_message(self):
        """a pattern built from one message of the universe: its type / id / name and one or two of its arguments, each
        exact or one edit away (so that value-level slips meet the messages they matter for)"""
        rng = self.rng
        m = rng.choice(self.v['msgs'])
        p = {'conn': None, 'obj': None, 'name': None, 'args': None, 'bare': False}
        if rng.random() < 0.25:
            p['conn'] = {'w': m['conn']}
        r = rng.random()
        if r < 0.35 and m['target'][0] and ok_word(m['target'][0]):
            p['obj'] = {'type': m['target'][0]}
        elif r < 0.55:
            p['obj'] = {'id': m['target'][1], 'gen': rng.choice([None, m['target'][2]]), 'at': False}
        if rng.random() < 0.6 and ok_word(m['name']):
            p['name'] = {'w': m['name']}
        items = []
        for a in rng.sample(m['args'], min(len(m['args']), rng.choice([1, 1, 2]))):
            v = self.near_value(a)
            if v is None:
                continue
            nm = {'w': a['name']} if a['name'] and ok_word(a['name']) and rng.random() < 0.5 else None
            items.append({'name': nm, 'value': v})
        if not items:
            return None
        neg = rng.random() < 0.15
        p['args'] = {'pos': [] if neg else items, 'neg': items if neg else []}
        if neg and not p['args']['pos'] and rng.random() < 0.5:
            p['args']['pos'] = [{'name': None, 'value': {'word': '*'}}] if self.allow_never else []
        return p

    def pattern(self):
        rng = self.rng
        if self.v.get('msgs') and rng.random() < 0.22:
            q = self.from_message()
            if q is not None:
                return q
        p = {'conn': None, 'obj': None, 'name': None, 'args': None, 'bare': False}
        if rng.random() < 0.3:
            p['conn'] = self.wl(self.v['conns'], 1, allow_star=True)
        r = rng.random()
        names = self.v['names'] + ['new', 'destroyed', 'new', 'destroyed']
        if r < 0.3:
            p['bare'] = True
            p['obj'] = self.ospec()
        elif r < 0.55:
            if rng.random() < 0.6:
                p['obj'] = self.ospec()
            p['name'] = self.wl(names)
        elif r < 0.8:
            if rng.random() < 0.6:
                p['obj'] = self.ospec()
            p['name'] = self.wl(names)
            p['args'] = self.arglist()
        else:
            if rng.random() < 0.5:
                p['obj'] = self.ospec()
            p['args'] = self.arglist()
        return p

    def twin(self, p):
        """a copy of a pattern that PRINTS the same but means something else: one quoted string becomes a bare word (or the
        other way round), an int becomes the string of its digits"""
        import copy
        q = copy.deepcopy(p)
        done = []

        def flip(v):
            if done or not isinstance(v, dict):
                return
            if 'str' in v and ok_word(v['str']):
                w = v.pop('str')
                v['word'] = w
                done.append(1)
            elif 'word' in v and '*' not in v['word']:
                w = v.pop('word')
                v['str'] = w
                done.append(1)
            elif 'int' in v:
                n = v.pop('int')
                v['str'] = str(n)
                done.append(1)
            elif 'pos' in v:
                for x in v['pos'] + v['neg']:
                    flip(x)

        def walk(item):
            if 'pos' in item:
                for x in item['pos'] + item['neg']:
                    walk(x)
            elif item.get('value') is not None:
                flip(item['value'])
        if q['args'] is None:
            return None
        for it in q['args']['pos'] + q['args']['neg']:
            walk(it)
        return q if done else None

    def matcher(self):
        r = self.rng.random()
        npos = self.rng.choice([1, 1, 1, 2, 3])
        nneg = 0 if r < 0.6 else self.rng.choice([1, 1, 2])
        pos = [self.pattern() for _ in range(npos)]
        if self.rng.random() < 0.08:
            t = self.twin(self.rng.choice(pos))
            if t is not None:
                pos.insert(self.rng.randrange(len(pos) + 1), t)
        if nneg and self.rng.random() < 0.3:
            pos = []      # "! x": everything except
        return {'pos': pos, 'neg': [self.pattern() for _ in range(nneg)]}


ANY = {'conn': None, 'obj': None, 'name': None, 'args': None, 'bare': True}


# ------------------------------------------------------------------------------------------------ rendering

class Render:
    """style: ws = probability of extra whitespace at token boundaries; br = probability of a redundant bracket pair"""

    def __init__(self, rng=None, ws=0.0, br=0.0):
        self.rng = rng
        self.ws = ws
        self.br = br

    def at(self):
        # `#` is newer libwayland's spelling of `@` in front of an object ID, and the matcher takes either
        if self.rng is not None and self.rng.random() < 0.35:
            return '#'
        return '@'

    def sp(self, default=''):
        if self.rng is not None and self.rng.random() < self.ws:
            return self.rng.choice([' ', '  ', ' '])
        return default

    def brk(self, text):
        if self.rng is not None and text and self.rng.random() < self.br:
            return '[' + self.sp() + text + self.sp() + ']'
        return text

    def lst(self, node, f):
        s = (self.sp() + ',' + self.sp(' ')).join(f(p) for p in node['pos'])
        if node['neg']:
            s += self.sp(' ') + '!' + self.sp(' ') + (self.sp() + ',' + self.sp(' ')).join(f(n) for n in node['neg'])
        return '[' + self.sp() + s + self.sp() + ']'

    def wl(self, node):
        if 'never' in node:
            return '[' + self.sp() + '!' + self.sp() + ']'
        if 'w' in node:
            return self.brk(node['w'])
        return self.lst(node, self.wl)

    def ospec(self, node):
        if 'never' in node:
            return '[' + self.sp() + '!' + self.sp() + ']'
        if 'type' in node:
            return self.brk(node['type'])
        if 'id' in node:
            return self.brk((self.at() if node.get('at') else '') + str(node['id']) + ('' if node['gen'] is None else history.letters(node['gen'])))
        return self.lst(node, self.ospec)

    def val(self, node):
        if 'never' in node:
            return '[' + self.sp() + '!' + self.sp() + ']'
        if 'int' in node:
            return self.brk(str(node['int']))
        if 'float' in node:
            return self.brk(node['float'])
        if 'str' in node:
            return self.brk('"' + node['str'] + '"')
        if 'word' in node:
            return self.brk(node['word'])
        if 'nil' in node:
            return self.brk('nil')
        if 'oid' in node:
            return self.brk(self.at() + str(node['oid']) + ('' if node['gen'] is None else history.letters(node['gen'])))
        return self.lst(node, self.val)

    def item(self, node, no_outer_bracket=False):
        if 'pos' in node:
            return self.lst(node, self.item)
        n = '' if node['name'] is None else self.wl(node['name'])
        v = '' if node['value'] is None else self.val(node['value'])
        if node['name'] is None:
            s = v
        else:
            s = n + self.sp() + '=' + self.sp() + v
        return s if no_outer_bracket else self.brk(s)

    def arglist(self, node):
        s = (self.sp() + ',' + self.sp(' ')).join(self.item(i) for i in node['pos'])
        if node['neg']:
            s += self.sp(' ') + '!' + self.sp(' ') + (self.sp() + ',' + self.sp(' ')).join(self.item(i) for i in node['neg'])
        return s

    def pattern(self, p):
        if p['conn'] is None and p['obj'] is None and p['name'] is None and p['args'] is None:
            return '*'
        s = ''
        if p['conn'] is not None:
            s += self.wl(p['conn']) + self.sp() + ':' + self.sp(' ')
        obj = '' if p['obj'] is None else self.ospec(p['obj'])
        if p['bare']:
            return s + obj
        if p['name'] is not None:
            s += obj + self.sp() + '.' + self.sp() + self.wl(p['name'])
            if p['args'] is not None:
                s += self.sp() + '(' + self.sp() + self.arglist(p['args']) + self.sp() + ')'
            return s
        dot = '.' if (obj == '' or (self.rng is not None and self.rng.random() < 0.3)) else ''
        return s + obj + dot + '(' + self.sp() + self.arglist(p['args']) + self.sp() + ')'

    def matcher(self, m):
        pos = (self.sp() + ',' + self.sp(' ')).join(self.pattern(p) for p in m['pos'])
        if not m['neg']:
            return pos
        neg = (self.sp() + ',' + self.sp(' ')).join(self.pattern(p) for p in m['neg'])
        if m['pos'] == [ANY] and m['neg'] == [ANY]:
            return '!'
        return (pos + ' ' if pos else '') + '!' + self.sp(' ') + neg


def shape(node, depth=0):
    """structural signature of an AST (atom kinds and nesting, not the atoms themselves)"""
    if isinstance(node, dict):
        if 'pos' in node and 'neg' in node and 'conn' not in node:
            return 'L%d/%d(%s)' % (len(node['pos']), len(node['neg']), ','.join(sorted({shape(x, depth + 1) for x in node['pos'] + node['neg']})))
        if 'conn' in node:
            return 'P[%s|%s|%s|%s|%s]' % ('c' if node['conn'] else '', shape(node['obj']) if node['obj'] else '', shape(node['name']) if node['name'] else '',
                                         shape(node['args']) if node['args'] else '', 'b' if node['bare'] else '')
        if 'never' in node:
            return 'never'
        if 'w' in node:
            return 'w*' if '*' in node['w'] else 'w'
        if 'type' in node:
            return 't*' if '*' in node['type'] else 't'
        if 'id' in node:
            return 'id' + ('g' if node['gen'] is not None else '')
        if 'name' in node and 'value' in node:
            return 'I(%s=%s)' % (shape(node['name']) if node['name'] else '', shape(node['value']) if node['value'] else '')
        for k in ('int', 'float', 'str', 'word', 'nil', 'oid'):
            if k in node:
                return k
    return '?'
