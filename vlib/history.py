"""Protocol-aware simulator of one Wayland connection: emits a WELL-FORMED message history together with ground
truth, including the exact text the tool is expected to display for every message (time column and lifespan
digits aside).  Written from the property statements and the protocol XML (vlib/wlxml.py), not from the tool.

A history is a list of records (JSON-able):
  {'t_us': int, 'send_c': bool (sent by the client = request), 'iface', 'id', 'name',
   'args': [printer-style closure args], 'gt': {...ground truth...}}
gt = {'target': [type,id,gen], 'objs': [[argindex, kind('obj'|'new'), type,id,gen]...], 'destroyed': [type,id,gen]|None,
      'created_t_us': int|None (creation time of the destroyed object), 'implicit': [[type,id,gen,created_t_us]...],
      'alive': sorted list of [id,gen] alive after this message, 'body': display text without connection prefix,
      time and lifespan, 'names': [...], 'role_hint': ...}
"""
from . import wlxml, printer

SERVER_ID_START = 0xff000000
STRINGS = ['[1.000] <7>  -> x@1.y(', 'q [2.5] <0> a#1.b(', 'x} <7>  -> x#1.y(', 'state {a 3} <9> wl_surface#14.commit(', 'less: [1.5] {Default Queue} <3> wl_display@1.sync(new id wl_callback@9)', '} a#1.b(', 'two  spaces', 'tab\there', 'wl_seat', 'wl_surface', '5', 'left', '', 'hello', 'Hello World', 'org.gnome.gedit', 'a, b', 'f(x, y)', '[x]', ', ', ')', 'żółć', ' lead', 'it\'s',
           'wl_surface@3', 'nil', '-7', 'x' * 40, 'title (1) [2]']
UNKNOWN_IFACES = ['zz_unknown_v1', 'my_private_iface', 'vq_thing']
POPULAR = ['wl_compositor', 'wl_shm', 'wl_seat', 'wl_data_device_manager', 'xdg_wm_base', 'wl_subcompositor', 'wl_output',
           'zwp_linux_dmabuf_v1', 'wl_surface', 'wl_pointer', 'wl_keyboard', 'wl_data_device', 'wl_buffer', 'xdg_surface',
           'xdg_toplevel', 'wl_region', 'zwlr_layer_shell_v1', 'wl_shell', 'wl_shell_surface', 'zwp_text_input_v1',
           'wl_data_source', 'wl_touch', 'xdg_positioner', 'xdg_popup', 'zwp_primary_selection_device_v1']


def letters(n):
    n += 1
    s = ''
    while n > 0:
        n -= 1
        s = chr(ord('a') + n % 26) + s
        n //= 26
    return s


def label(type_, id_, gen):
    return '%s@%d%s' % (type_, id_, letters(gen))


class Obj:
    __slots__ = ('type', 'id', 'gen', 'alive', 'created_t', 'zombie')

    def __init__(self, type_, id_, gen, t):
        self.type, self.id, self.gen, self.alive, self.created_t, self.zombie = type_, id_, gen, True, t, False

    def key(self):
        return [self.type, self.id, self.gen]


class Sim:
    """one connection"""

    def __init__(self, rng, cands, opts=None):
        self.rng = rng
        self.cands = cands
        self.o = dict(hot=0.08, unknown=0.1, dead_mention=0.15, server_new=0.5, max_live=40, generic=0.5,
                      big_gaps=0.1, unique_times=False, start_us=None, equal_times=0.2, first='get_registry')
        self.o.update(opts or {})
        self.db = {1: [Obj('wl_display', 1, 0, 0)]}
        self.free_client = []          # freed client ids (after delete_id)
        self.next_client = 2
        self.next_server = SERVER_ID_START
        self.pending_delete = []       # client objects destroyed by the client, delete_id not yet sent
        self.callbacks = []            # live wl_callback objects awaiting done
        self.globals = []              # (name, iface)
        self.t = self.o['start_us'] if self.o['start_us'] is not None else rng.choice([0, 1000, 770203519, rng.randint(0, 4 * 10**9)])
        self.hist = []
        self.stats = {'reuse': 0, 'server_reuse': 0, 'dead_mentions': 0, 'dead_targets': 0, 'max_depth': 0, 'unknown_iface_msgs': 0,
                      'binds': 0, 'delete_ids': 0, 'generic': 0}
        self._unambig = {}

    # ------------------------------------------------------------------ helpers
    def live(self, type_=None):
        res = []
        for lst in self.db.values():
            ob = lst[-1]
            if ob.alive and (type_ is None or ob.type == type_):
                res.append(ob)
        return res

    def last_incarnations(self, type_=None):
        return [l[-1] for l in self.db.values() if type_ is None or l[-1].type == type_]

    def alloc_client(self, avoid=()):
        free = [i for i in self.free_client if i not in avoid]
        if free and self.rng.random() < self.o.get('reuse_bias', 0.9):
            i = min(free)           # libwayland hands out the lowest free id first: maximal reuse
            self.free_client.remove(i)
            return i
        i = self.next_client
        self.next_client += 1
        return i

    def alloc_server(self, avoid=()):
        live_server = [o for o in self.live() if o.id >= SERVER_ID_START and o.id not in avoid]
        r = self.rng.random()
        if live_server and r < 0.35:
            return self.rng.choice(live_server).id      # reused freely, no delete_id in between
        dead_server = [l[-1].id for i, l in self.db.items() if i >= SERVER_ID_START and not l[-1].alive and i not in avoid]
        if dead_server and r < 0.5:
            return self.rng.choice(dead_server)
        i = self.next_server
        self.next_server += 1
        return i

    def tick(self):
        if len(self.hist) < self.o.get('tie_prefix', 0):
            return self.t          # the first messages all carry the time of the very first line
        r = self.rng.random()
        eq = 0.0 if self.o['unique_times'] else self.o['equal_times']
        th = self.o.get('thresh', 0.06)
        big = self.o['big_gaps'] * 0.3
        back = self.o.get('backsteps', 0.0)
        if back and self.rng.random() < back:
            # the clock steps backwards (logs of two processes joined, a delayed stderr write, counter wrap)
            d = -self.rng.choice([1, 500, 999, 1000, 400000, 1000000, 1500000, 3000000, self.rng.randint(1, 5000000)])
        elif r < eq:
            d = 0
        elif r < eq + th:
            d = self.rng.choice([999999, 1000000, 1000000, 1000001, 999900, 1000100, 1500000, 2000000])
        elif r < eq + th + big:
            d = self.rng.randint(10**6, 4 * 10**9) if self.rng.random() < 0.5 else self.rng.randint(10**6, 3 * 10**6)
        elif r < eq + th + big + (1 - eq - th - big) * 0.6:
            d = self.rng.randint(1, 90)
        else:
            d = self.rng.randint(100, 20000)
        if self.t + d < 0:
            d = 0
        self.t += d
        return self.t

    def create(self, type_, id_, implicit):
        lst = self.db.setdefault(id_, [])
        if lst and lst[-1].alive:
            assert id_ >= SERVER_ID_START, 'generator bug: live client id reused'
            old = lst[-1]
            old.alive = False
            implicit.append(old.key() + [old.created_t])
            self.stats['server_reuse'] += 1
        if lst:
            self.stats['reuse'] += 1
        ob = Obj(type_, id_, len(lst), self.t)
        lst.append(ob)
        self.stats['max_depth'] = max(self.stats['max_depth'], len(lst))
        if type_ == 'wl_callback':
            self.callbacks.append(ob)
        return ob

    # ------------------------------------------------------------------ display expectations from the XML
    def msg_desc(self, iface, name):
        """the message description if all highest-version candidates agree on it, else None ('' if iface unknown)"""
        key = (iface, name)
        if key in self._unambig:
            return self._unambig[key]
        cs = self.cands.get(iface)
        res = None
        if cs:
            descs = [c['messages'].get(name) for c in cs]
            if all(d is not None for d in descs):
                sigs = {repr([(a['name'], a['type'], a['interface'], wlxml.arg_enum(iface, name, a)) for a in d['args']]) for d in descs}
                if len(sigs) == 1:
                    res = descs[0]
                    # enums must be unambiguous too
                    for a in res['args']:
                        e = wlxml.arg_enum(iface, name, a)
                        if e:
                            es = wlxml.find_enum(self.cands, iface, e)
                            if len({repr((x['bitfield'], x['entries'])) for x in es}) > 1:
                                res = None
                                break
        self._unambig[key] = res
        return res

    def arg_info(self, iface, name, idx, a, gtobj, dialect_free=True):
        """neutral projection of one argument as the tool is expected to display it:
        {name, kind, value, labels, nil_type, obj}"""
        known = iface in self.cands and (iface, name) != ('wl_registry', 'bind') and name in self.cands[iface][0]['messages']
        desc = None
        info = {'name': None, 'kind': None, 'value': None, 'labels': None, 'nil_type': None, 'obj': None}
        if known:
            md = self.msg_desc(iface, name)
            if idx < len(md['args']):          # an argument the XML does not describe (newer protocol version) stays undecorated
                desc = md['args'][idx]
                info['name'] = desc['name']
        k = a['k']
        if k in 'iu':
            info['kind'] = 'int'
            info['value'] = a['v']
            if desc is not None:
                e = wlxml.arg_enum(iface, name, desc)
                if e:
                    es = wlxml.find_enum(self.cands, iface, e)
                    if es:
                        info['labels'] = wlxml.labels_for(es[0], a['v'])
        elif k == 'f':
            info['kind'] = 'float'
            info['value'] = a['v']          # raw 24.8; the decoded value depends on the dialect
        elif k == 's':
            if a['v'] is None:
                info['kind'] = 'nil'
                info['nil_type'] = (desc or {}).get('interface')
            else:
                info['kind'] = 'str'
                info['value'] = a['v']
        elif k == 'o':
            if a['v'] is None:
                info['kind'] = 'nil'
                info['nil_type'] = (desc or {}).get('interface')
            else:
                info['kind'] = 'obj'
                info['obj'] = list(gtobj)
        elif k == 'n':
            info['kind'] = 'new'
            info['obj'] = list(gtobj)
        elif k == 'a':
            info['kind'] = 'array'
        elif k == 'h':
            info['kind'] = 'fd'
            info['value'] = a['v']
        else:
            raise ValueError(k)
        return info

    @staticmethod
    def show_info(info):
        pre = info['name'] + '=' if info['name'] is not None else ''
        k = info['kind']
        if k == 'int':
            return pre + str(info['value']) + (':' + '&'.join(info['labels']) if info['labels'] else '')
        if k == 'float':
            return pre + 'FLOAT'
        if k == 'str':
            return pre + repr(info['value'])
        if k == 'nil':
            return pre + 'null ' + (info['nil_type'] or '??')
        if k == 'obj':
            return pre + label(*info['obj'])
        if k == 'new':
            return pre + 'new ' + label(*info['obj'])
        if k == 'array':
            return pre + '[...]'
        if k == 'fd':
            return pre + 'fd %d' % info['value']
        raise ValueError(k)

    # ------------------------------------------------------------------ emit
    def emit(self, send_c, target, name, args, new_types=None, destroys=None):
        """target: Obj; args: closure args where object args carry {'obj': Obj}; new ids carry {'new_type': str}"""
        t = self.tick()
        implicit = []
        gt_objs = []
        cargs = []
        shown = []
        argv = []
        destroyed = None
        created_t = None
        if not target.alive:
            self.stats['dead_targets'] += 1
        if target.type not in self.cands:
            self.stats['unknown_iface_msgs'] += 1
        # the tool resolves: target first, then delete_id, then arguments left to right
        if target.id == 1 and name == 'delete_id':
            ob = self.db[args[0]['v']][-1]
            ob.alive = False
            destroyed = ob.key()
            created_t = ob.created_t
            self.stats['delete_ids'] += 1
        for i, a in enumerate(args):
            a = dict(a)
            gto = None
            if a['k'] == 'o' and a.get('obj') is not None:
                ob = a.pop('obj')
                if not ob.alive:
                    self.stats['dead_mentions'] += 1
                a['v'] = {'iface': ob.type, 'id': ob.id}
                gto = ob.key()
                gt_objs.append([i, 'obj'] + gto)
            elif a['k'] == 'o':
                a.pop('obj', None)
                a['v'] = None
            elif a['k'] == 'n':
                nt = a.pop('new_type')
                ob = self.create(nt, a['v'], implicit)
                gto = ob.key()
                gt_objs.append([i, 'new'] + gto)
            cargs.append(a)
            info = self.arg_info(target.type, name, i, a, gto)
            argv.append(info)
            shown.append(self.show_info(info))
        body = '%s.%s(%s)' % (label(*target.key()), name, ', '.join(shown))
        alive = sorted([o.id, o.gen] for o in self.live())
        rec = {'t_us': t, 'send_c': send_c, 'iface': target.type, 'id': target.id, 'name': name, 'args': cargs,
               'gt': {'target': target.key(), 'objs': gt_objs, 'destroyed': destroyed, 'created_t_us': created_t,
                      'implicit': implicit, 'alive': alive, 'body': body, 'argv': argv}}
        self.hist.append(rec)
        return rec

    # ------------------------------------------------------------------ actions
    def act_get_registry(self):
        d = self.db[1][0]
        self.emit(True, d, 'get_registry', [{'k': 'n', 'v': self.alloc_client(), 'iface': 'wl_registry', 'new_type': 'wl_registry'}])

    def act_sync(self):
        d = self.db[1][0]
        self.emit(True, d, 'sync', [{'k': 'n', 'v': self.alloc_client(), 'iface': 'wl_callback', 'new_type': 'wl_callback'}])

    def act_callback_done(self):
        cbs = [c for c in self.callbacks if c.alive and not c.zombie]
        if not cbs:
            return self.act_sync()
        cb = self.rng.choice(cbs)
        self.emit(False, cb, 'done', [{'k': 'u', 'v': self.rng.randint(0, 100000)}])
        cb.zombie = True
        self.pending_delete.append(cb)
        if self.rng.random() < self.o.get('prompt_delete', 0.8):
            self.act_delete_id()

    def act_delete_id(self):
        if not self.pending_delete:
            return False
        ob = self.pending_delete.pop(self.rng.randrange(len(self.pending_delete)))
        self.emit(False, self.db[1][0], 'delete_id', [{'k': 'u', 'v': ob.id}])
        self.free_client.append(ob.id)
        return True

    def act_global(self):
        regs = self.live('wl_registry')
        if not regs:
            return self.act_get_registry()
        if self.rng.random() < self.o['unknown']:
            iface = self.rng.choice(UNKNOWN_IFACES)
        elif self.o.get('prefer_fixed') and self.rng.random() < self.o['prefer_fixed']:
            iface = self.rng.choice([p for p in ('wl_pointer', 'wl_touch', 'zwp_tablet_tool_v2', 'wp_viewport') if p in self.cands] or POPULAR[:1])
        elif self.rng.random() < 0.75:
            iface = self.rng.choice([p for p in POPULAR if p in self.cands])
        else:
            iface = self.rng.choice(self._ifaces())
        name = len(self.globals) + 1
        self.globals.append((name, iface))
        self.emit(False, self.rng.choice(regs), 'global', [{'k': 'u', 'v': name}, {'k': 's', 'v': iface}, {'k': 'u', 'v': self.rng.randint(1, 9)}])

    def act_bind(self):
        regs = self.live('wl_registry')
        if not regs or not self.globals:
            return self.act_global()
        name, iface = self.rng.choice(self.globals)
        self.stats['binds'] += 1
        self.emit(True, self.rng.choice(regs), 'bind',
                  [{'k': 'u', 'v': name}, {'k': 's', 'v': iface}, {'k': 'u', 'v': self.rng.randint(1, 9)},
                   {'k': 'n', 'v': self.alloc_client(), 'iface': None, 'new_type': iface}])

    def _ifaces(self):
        if not hasattr(self, '_iface_list'):
            self._iface_list = sorted(k for k in self.cands if k not in ('fake_enums', 'wl_display', 'wl_registry', 'wl_callback'))
        return self._iface_list

    def act_unknown_iface_msg(self):
        obs = [o for o in self.last_incarnations() if o.type not in self.cands]
        if not obs:
            return False
        ob = self.rng.choice(obs)
        n = self.rng.randint(0, 4)
        args = []
        for _ in range(n):
            k = self.rng.choice('iufsoah')
            if k == 'o':
                args.append({'k': 'o', 'obj': self.any_object()} if self.rng.random() < 0.8 else {'k': 'o', 'obj': None})
            else:
                a = printer.gen_arg(self.rng, k)
                if k == 's':
                    a['v'] = self.rng.choice(STRINGS + [None])
                args.append(a)
        self.emit(self.rng.random() < 0.5, ob, self.rng.choice(['frob', 'set_x', 'ping', 'destroyed', 'new']), args)
        return True

    def any_object(self):
        pool = [o for o in self.last_incarnations() if o.id != 1]
        dead = [o for o in pool if not o.alive]
        alive = [o for o in pool if o.alive]
        if dead and (not alive or self.rng.random() < 0.4):
            return self.rng.choice(dead)
        return self.rng.choice(alive) if alive else None

    def act_display_error(self):
        """wl_display.error carries an object argument of no declared interface: a vehicle for mentions"""
        ob = self.any_object()
        if ob is None or self.msg_desc('wl_display', 'error') is None:
            return False
        self.emit(False, self.db[1][0], 'error', [{'k': 'o', 'obj': ob}, {'k': 'u', 'v': self.rng.randint(0, 5)},
                                                  {'k': 's', 'v': self.rng.choice(STRINGS)}])
        return True

    def pick_object_for(self, iface_decl):
        """a live object of the declared interface; sometimes a dead, not yet reused one (mention after destruction)"""
        pool = self.last_incarnations(iface_decl)
        pool = [o for o in pool if o.id != 1 or iface_decl in (None, 'wl_display')]
        if not pool:
            return None
        alive = [o for o in pool if o.alive]
        dead = [o for o in pool if not o.alive]
        if dead and (not alive or self.rng.random() < self.o['dead_mention']):
            return self.rng.choice(dead)
        return self.rng.choice(alive) if alive else None

    def act_generic(self):
        """a message from the XML on a live (sometimes recently dead) object of a known interface"""
        obs = [o for o in self.last_incarnations() if o.type in self.cands and o.type not in ('wl_display', 'wl_registry', 'wl_callback')
               and (o.alive or self.rng.random() < 0.3)]
        self.rng.shuffle(obs)
        for ob in obs[:6]:
            cs = self.cands[ob.type][0]
            names = sorted(cs['messages'])
            self.rng.shuffle(names)
            if self.o.get('prefer_fixed') and self.rng.random() < 0.5:
                names.sort(key=lambda nm: 0 if any(a['type'] == 'fixed' for a in cs['messages'][nm]['args']) else 1)   # messages carrying fixed-point values first
            for name in names[:6]:
                md = self.msg_desc(ob.type, name)
                if md is None:
                    continue
                if ob.zombie and not md['is_event']:
                    continue            # a destroyed proxy sends no more requests
                args = self.gen_args(ob, name, md)
                if args is None:
                    continue
                self.stats['generic'] += 1
                self.emit(not md['is_event'], ob, name, args)
                if md.get('destructor') and not md['is_event'] and ob.id < SERVER_ID_START and not ob.zombie:
                    ob.zombie = True
                    self.pending_delete.append(ob)
                return True
        return False

    def gen_args(self, ob, name, md):
        args = []
        if len(self.live()) > self.o['max_live'] and any(a['type'] == 'new_id' for a in md['args']):
            return None
        for a in md['args']:
            ty = a['type']
            if ty in ('int', 'uint'):
                e = wlxml.arg_enum(ob.type, name, a)
                v = None
                if e and self.rng.random() < 0.8:
                    es = wlxml.find_enum(self.cands, ob.type, e)
                    if es:
                        ent = es[0]['entries']
                        if es[0]['bitfield'] and ent:
                            v = 0
                            for _ in range(self.rng.randint(0, 3)):
                                v |= self.rng.choice(ent)[1]
                        elif ent and self.rng.random() < 0.85:
                            v = self.rng.choice(ent)[1]
                if v is None:
                    v = printer.gen_int(self.rng, ty == 'int') if self.rng.random() < 0.3 else self.rng.randint(0, 2000)
                if ty == 'uint' and v < 0:
                    v = -v
                args.append({'k': 'i' if ty == 'int' else 'u', 'v': v})
            elif ty == 'fixed':
                args.append({'k': 'f', 'v': printer.gen_fixed(self.rng)})
            elif ty == 'string':
                if a['allow_null'] and self.rng.random() < 0.3:
                    args.append({'k': 's', 'v': None})
                else:
                    args.append({'k': 's', 'v': self.rng.choice(STRINGS)})
            elif ty == 'object':
                o2 = self.pick_object_for(a['interface'])
                if o2 is None or (a['allow_null'] and self.rng.random() < 0.25):
                    if not a['allow_null'] and self.rng.random() < 0.7:
                        return None
                    args.append({'k': 'o', 'obj': None})     # libwayland prints nil for a NULL object whatever the XML says
                else:
                    args.append({'k': 'o', 'obj': o2})
            elif ty == 'new_id':
                if not a['interface']:
                    return None
                args.append({'k': 'n', 'v': None, 'iface': a['interface'], 'new_type': a['interface']})
            elif ty == 'array':
                args.append({'k': 'a', 'data': [0] * self.rng.choice([0, 1, 3, 8])})
            elif ty == 'fd':
                args.append({'k': 'h', 'v': self.rng.randint(3, 60)})
            else:
                return None
        # ids for the new objects: never an id that this same message (target or argument) mentions, otherwise the
        # mention would be ambiguous between the old and the new object
        avoid = {ob.id} | {x['obj'].id for x in args if x['k'] == 'o' and x.get('obj') is not None}
        for x in args:
            if x['k'] == 'n':
                x['v'] = self.alloc_server(avoid) if md['is_event'] else self.alloc_client(avoid)
                avoid.add(x['v'])
        return args

    def act_server_new(self):
        """an event that creates a server-range object (ids reused freely, no delete_id)"""
        for ob in self.rng.sample(self.live(), min(8, len(self.live()))):
            if ob.type not in self.cands:
                continue
            for name, md in sorted(self.cands[ob.type][0]['messages'].items()):
                if md['is_event'] and any(a['type'] == 'new_id' and a['interface'] for a in md['args']) and self.msg_desc(ob.type, name):
                    args = self.gen_args(ob, name, self.msg_desc(ob.type, name))
                    if args is not None:
                        self.emit(False, ob, name, args)
                        return True
        # make sure such an object exists next time
        regs = self.live('wl_registry')
        if regs:
            iface = self.rng.choice(['wl_data_device', 'zwp_primary_selection_device_v1', 'zwlr_data_control_device_v1'])
            if iface in self.cands:
                name = len(self.globals) + 1
                self.globals.append((name, iface))
                self.emit(True, self.rng.choice(regs), 'bind',
                          [{'k': 'u', 'v': name}, {'k': 's', 'v': iface}, {'k': 'u', 'v': 1},
                           {'k': 'n', 'v': self.alloc_client(), 'iface': None, 'new_type': iface}])
                return True
        return False

    def act_newer_protocol(self):
        """the program speaks a newer protocol version than the shipped XML: a message the XML does not have on a known
        interface, or a known message with one more argument.  Still a well-formed libwayland line; expected undecorated."""
        obs = [o for o in self.live() if o.type in self.cands and o.type not in ('wl_display', 'wl_registry', 'wl_callback')]
        if not obs:
            return False
        ob = self.rng.choice(obs)
        if self.rng.random() < 0.5:
            args = []
            for _ in range(self.rng.randint(0, 3)):
                k = self.rng.choice('iufsoh')
                if k == 'o':
                    args.append({'k': 'o', 'obj': self.any_object() if self.rng.random() < 0.7 else None})
                elif k == 's':
                    args.append({'k': 's', 'v': self.rng.choice(STRINGS + [None])})
                else:
                    args.append(printer.gen_arg(self.rng, k))
            self.emit(self.rng.random() < 0.5, ob, self.rng.choice(['vq_future_request', 'set_vq_thing', 'new_in_v99']), args)
            self.stats['newer_protocol_msgs'] = self.stats.get('newer_protocol_msgs', 0) + 1
            return True
        names = sorted(self.cands[ob.type][0]['messages'])
        self.rng.shuffle(names)
        for name in names[:5]:
            md = self.msg_desc(ob.type, name)
            if md is None or (ob.zombie and not md['is_event']) or md.get('destructor') or any(a['type'] == 'new_id' for a in md['args']):
                continue
            args = self.gen_args(ob, name, md)
            if args is None:
                continue
            args.append(self.rng.choice([{'k': 'u', 'v': self.rng.randint(0, 9)}, {'k': 's', 'v': 'extra'}, {'k': 'o', 'obj': None}]))
            self.emit(not md['is_event'], ob, name, args)
            self.stats['newer_protocol_msgs'] = self.stats.get('newer_protocol_msgs', 0) + 1
            return True
        return False

    def act_titles(self):
        """messages the tool also uses for the connection's title (set_title / set_app_id / get_layer_surface), with
        awkward strings"""
        tops = self.live('xdg_toplevel') + self.live('zxdg_toplevel_v6') + self.live('wl_shell_surface')
        if not tops:
            regs = self.live('wl_registry')
            if not regs:
                return False
            name = len(self.globals) + 1
            self.globals.append((name, 'xdg_toplevel'))
            self.emit(True, self.rng.choice(regs), 'bind', [{'k': 'u', 'v': name}, {'k': 's', 'v': 'xdg_toplevel'}, {'k': 'u', 'v': 1},
                                                           {'k': 'n', 'v': self.alloc_client(), 'iface': None, 'new_type': 'xdg_toplevel'}])
            return True
        ob = self.rng.choice(tops)
        name = self.rng.choice(['set_title', 'set_app_id']) if ob.type != 'wl_shell_surface' else 'set_title'
        if self.msg_desc(ob.type, name) is None:
            return False
        pool = self.o.get('app_pool') or ['', 'a.', 'org.gnome.gedit', 'Title, with (stuff)', '.', 'x', 'A', 'a', 'b', 'B', 'b', 'c', 'C', 'd', 'all', 'aa']
        self.emit(True, ob, name, [{'k': 's', 'v': self.rng.choice(pool)}])
        return True

    def act_client_destroy(self):
        """the client drops a client-range object without a destructor request in the XML (e.g. after an event)"""
        obs = [o for o in self.live() if 1 < o.id < SERVER_ID_START and not o.zombie and (o.type != 'wl_registry' or self.rng.random() < 0.3)]
        if not obs:
            return False
        ob = self.rng.choice(obs)
        ob.zombie = True
        self.pending_delete.append(ob)
        return True

    # ------------------------------------------------------------------ driver
    def run(self, n):
        rng = self.rng
        first = self.o['first']
        if first == 'get_registry':
            self.act_get_registry()
        elif first == 'sync':
            self.act_sync()
        while len(self.hist) < n:
            r = rng.random()
            h = self.o['hot']
            if r < h:
                # hot loop: pushes one id through many incarnations
                for _ in range(rng.randint(1, 4)):
                    self.act_sync()
                    self.act_callback_done()
            elif r < h + 0.01:
                self.act_get_registry()      # clients may ask for the registry again (and the id of a deleted one is reused)
            elif r < h + 0.05:
                self.act_global()
            elif r < h + 0.12:
                self.act_bind()
            elif r < h + 0.20:
                self.act_delete_id() or self.act_client_destroy()
            elif r < h + 0.24:
                self.act_client_destroy()
            elif r < h + 0.29:
                self.act_unknown_iface_msg() or self.act_global()
            elif r < h + 0.32:
                self.act_callback_done()
            elif r < h + 0.36:
                self.act_display_error()
            elif r < h + 0.36 + self.o.get('titles', 0.02):
                self.act_titles()
            elif r < h + 0.36 + self.o.get('titles', 0.02) + self.o.get('newer', 0.03):
                self.act_newer_protocol()
            elif r < h + 0.36 + self.o.get('titles', 0.02) + self.o.get('newer', 0.03) + self.o['server_new'] * 0.2:
                self.act_server_new() or self.act_global()
            else:
                self.act_generic() or self.act_bind()
        return self.hist[:n] if False else self.hist


# ---------------------------------------------------------------------------------------------- rendering

def to_closure(rec, side, conn=None, queue=None):
    """side 'client': requests are sent; side 'server': events are sent"""
    return {'iface': rec['iface'], 'id': rec['id'], 'name': rec['name'],
            'send': rec['send_c'] if side == 'client' else not rec['send_c'],
            'time_us': rec['t_us'], 'queue': queue, 'conn': conn, 'args': rec['args']}


def render(rec, side, dialect, conn=None, queue=None):
    return printer.render(to_closure(rec, side, conn, queue), dialect)


def expected_text(rec, side, conn_name):
    """the line the tool is expected to show, with TIME for the time column, FLOAT for fixed values and LIFE for the
    lifespan digits"""
    sent = rec['send_c'] if side == 'client' else not rec['send_c']
    s = conn_name + ': ' + ('→ ' if sent else '') + rec['gt']['body']
    if rec['gt']['destroyed'] is not None:
        s += ' -- ' + label(*rec['gt']['destroyed']) + '.destroyed after LIFE'
    if not sent:
        s += ' ↲'
    return s


def validate(hist):
    """independent well-formedness validator of a generated history (guards against blaming the tool for an
    ill-formed input): every mention names an id created before; a client-range id is re-created only after its
    delete_id; delete_id names a created client id that is not already deleted."""
    created = {1: True}   # id -> deleted?  (True = currently existing and not deleted)
    types = {1: 'wl_display'}
    for n, r in enumerate(hist):
        def need(i, t=None):
            if i not in created:
                raise AssertionError('line %d mentions id %d before its creation' % (n, i))
            if t is not None and types[i] != t:
                raise AssertionError('line %d mentions %s@%d but the latest object with that id is a %s' % (n, t, i, types[i]))
        need(r['id'], r['iface'])
        if r['id'] == 1 and r['name'] == 'delete_id':
            i = r['args'][0]['v']
            need(i)
            if i >= SERVER_ID_START:
                raise AssertionError('delete_id for a server-range id')
            if created[i] is not True:
                raise AssertionError('line %d deletes id %d twice' % (n, i))
            created[i] = False
        for a in r['args']:
            if a['k'] == 'o' and a['v'] is not None:
                need(a['v']['id'], a['v']['iface'])
            if a['k'] == 'n':
                i = a['v']
                if i <= 1:
                    raise AssertionError('new id <= 1')
                if created.get(i) is True and i < SERVER_ID_START:
                    raise AssertionError('line %d re-creates live client id %d' % (n, i))
                created[i] = True
                types[i] = a.get('iface') or (r['args'][1]['v'] if r['name'] == 'bind' else None)
    return True


def generate(rng, cands, n, opts=None):
    s = Sim(rng, cands, opts)
    s.run(n)
    validate(s.hist)
    return s
