"""Invariants at hooks, installed from the harness on the real classes (plain wrappers; evaluation counts are
reported, zero evaluations = inconclusive).  Violations are collected in VIOLATIONS and drained by the checks."""

VIOLATIONS = []
COUNTS = {'db_invariant': 0, 'alive_writes': 0, 'manager_invariant': 0, 'controller_invariant': 0}
_installed = False


def _viol(kind, msg):
    if len(VIOLATIONS) < 50:
        VIOLATIONS.append((kind, msg))


def drain():
    v = list(VIOLATIONS)
    del VIOLATIONS[:]
    return v


def check_db(conn):
    COUNTS['db_invariant'] += 1
    db = conn.db
    d = db.get(1)
    if not d or d[0] is not conn.display or d[0].type != 'wl_display':
        _viol('inv-display', 'db[1][0] is not the wl_display of connection %s' % conn.name())
    # every incarnation of every id after every message is quadratic in the length of the history: beyond 1500 objects the
    # full walk happens every 257th call, in between the first and the last three incarnations of each id are looked at
    full = COUNTS['db_invariant'] % 257 == 0 or sum(len(l) for l in db.values()) < 1500
    for key, lst in db.items():
        alive_seen = 0
        for idx in (range(len(lst)) if full or len(lst) < 5 else [0] + list(range(len(lst) - 3, len(lst)))):
            ob = lst[idx]
            if ob.generation != idx or ob.id != key or ob.connection is not conn:
                _viol('inv-generation', 'db[%r][%d] has id=%r generation=%r on connection %s' % (
                    key, idx, ob.id, ob.generation, conn.name()))
            if ob.alive:
                alive_seen += 1
                if idx != len(lst) - 1:
                    _viol('inv-alive-not-last', 'incarnation %d of id %d is alive but is not the last of %d (connection %s)' % (
                        idx, key, len(lst), conn.name()))
        if alive_seen > 1:
            _viol('inv-two-alive', '%d alive incarnations of id %d on connection %s' % (alive_seen, key, conn.name()))


def check_manager(cm):
    COUNTS['manager_invariant'] += 1
    names = [c.name() for c in cm.connection_list]
    if len(set(names)) != len(names):
        _viol('inv-conn-names', 'connection names not distinct: %r' % names)
    for c in cm.open_connections.values():
        if c not in cm.connection_list:
            _viol('inv-open-not-listed', 'open connection %s not in the list' % c.name())
        if not c.is_open():
            _viol('inv-open-closed', 'connection %s is in open_connections but is_open() is false' % c.name())
    for c in cm.connection_list:
        if c.is_open() and c not in cm.open_connections.values():
            _viol('inv-listed-open-unrouted', 'connection %s says open but is not routable' % c.name())


class AliveWatch:
    """class-level data descriptor: any write False -> True is a resurrection"""
    def __get__(self, obj, cls=None):
        if obj is None:
            return self
        return obj.__dict__.get('_verif_alive', True)

    def __set__(self, obj, val):
        COUNTS['alive_writes'] += 1
        old = obj.__dict__.get('_verif_alive')
        if old is False and val:
            _viol('resurrection', 'object %s@%s generation %s became alive again' % (obj.type, obj.id, obj.generation))
        obj.__dict__['_verif_alive'] = val


def install():
    global _installed
    if _installed:
        return
    _installed = True
    from core.connection_impl import ConnectionImpl
    from core.connection_manager import ConnectionManager
    from core.wl.object import ObjectBase

    orig_message = ConnectionImpl.message

    def message(self, m):
        try:
            return orig_message(self, m)
        finally:
            check_db(self)
    ConnectionImpl.message = message

    orig_init = ConnectionImpl.__init__

    def init(self, *a, **k):
        orig_init(self, *a, **k)
        check_db(self)
    ConnectionImpl.__init__ = init

    for name in ('open_connection', 'close_connection', 'message'):
        def wrap(orig):
            def f(self, *a, **k):
                try:
                    return orig(self, *a, **k)
                finally:
                    check_manager(self)
            return f
        setattr(ConnectionManager, name, wrap(getattr(ConnectionManager, name)))

    from frontends.tui.controller import Controller
    orig_got = Controller.connection_got_new_message

    def got(self, connection, message):
        before = len(self.all_messages)
        try:
            return orig_got(self, connection, message)
        finally:
            COUNTS['controller_invariant'] += 1
            after = len(self.all_messages)
            if after != before + 1 or self.all_messages[-1] is not message:
                _viol('inv-controller-record', 'a message arrived on connection %s: the all-connections record went from %d to %d entries%s' % (
                    connection.name(), before, after, '' if after != before + 1 else ' but its last entry is another message'))
    Controller.connection_got_new_message = got

    # only when 'alive' is a plain instance attribute (as in the pinned tree); a class-level definition is left alone
    if 'alive' not in ObjectBase.__dict__:
        ObjectBase.alive = AliveWatch()
