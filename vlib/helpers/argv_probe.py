# executed inside real gdb's Python by the command run_gdb() builds: dumps the sys.argv it was given (as code points, so
# that lone surrogates survive the trip back to the harness)
import json, os, sys
with open(os.environ['VERIF_PROBE_OUT'], 'w') as f:
    json.dump([[ord(c) for c in a] for a in sys.argv], f)
