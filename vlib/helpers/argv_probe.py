# executed inside real gdb's Python by the command run_gdb() builds: dumps the sys.argv it was given
import json, os, sys
with open(os.environ['VERIF_PROBE_OUT'], 'w') as f:
    json.dump(list(sys.argv), f)
