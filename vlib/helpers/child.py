#!/usr/bin/python3
"""The program started by `main.py -r` in the C13/C19 checks.  Plan file: $VERIF_CHILD_PLAN (JSON):
 {'report': path, 'stderr_chunks': [[hex, delay_ms], ...], 'stdout_text': str, 'exit': int, 'hard_exit': bool}
Reports argv, WAYLAND_DEBUG, LD_LIBRARY_PATH and fstat(1) to 'report', writes the chunks to fd 2, exits."""
import json, os, sys, time
with open(os.environ['VERIF_CHILD_PLAN']) as _f:
    plan = json.load(_f)
st = os.fstat(1)
with open(plan['report'], 'w') as f:
    json.dump({'argv': sys.argv[1:], 'argv0': getattr(sys, 'orig_argv', [None])[0], 'script': sys.argv[0], 'WAYLAND_DEBUG': os.environ.get('WAYLAND_DEBUG'),
               'LD_LIBRARY_PATH': os.environ.get('LD_LIBRARY_PATH'), 'stdout': [st.st_dev, st.st_ino]}, f)
if plan.get('stdout_text'):
    os.write(1, plan['stdout_text'].encode())
for hx, delay in plan.get('stderr_chunks', []):
    if delay:
        time.sleep(delay / 1000.0)
    data = bytes.fromhex(hx)
    while data:
        n = os.write(2, data)
        data = data[n:]
if plan.get('close_stderr'):
    # the program lets go of its stderr (redirects it to a log file) and keeps running
    devnull = os.open(os.devnull, os.O_WRONLY)
    os.dup2(devnull, 2)
if plan.get('linger_ms'):
    time.sleep(plan['linger_ms'] / 1000.0)
os._exit(plan.get('exit', 0))
