"""Harness side of the gdb shim: materialises libwayland structures in memory (ctypes regions registered with the
shim), builds the frame chains libwayland would have at the plugin's breakpoints, and plays GDB's run loop."""
import struct
import sys
import os

SHIM = os.path.join(os.path.dirname(os.path.abspath(__file__)), 'shim')


def import_gdb():
    if SHIM not in sys.path:
        sys.path.insert(1, SHIM)
    import gdb
    assert getattr(gdb, 'VERSION', None) == 'verif-shim', 'the real gdb module is on the path?'
    return gdb


class World:
    """memory image of one inferior"""

    def __init__(self):
        self.gdb = import_gdb()
        self.mem = self.gdb.MEM
        self.mem.reset()
        self.ifaces = {}
        self.strings = {}

    low_heap = False        # hand out addresses below 4 GiB

    def put(self, data):
        a = self.mem.alloc(len(data), low=self.low_heap)
        if data:
            self.mem.write(a, data)
        return a

    def cstr(self, s):
        if s is None:
            return 0
        if s not in self.strings:
            self.strings[s] = self.put(s.encode('utf-8') + b'\x00')
        return self.strings[s]

    def interface(self, name):
        if name is None:
            return 0
        if name not in self.ifaces:
            self.ifaces[name] = self.put(struct.pack('<QiiQi4xQ', self.cstr(name), 1, 0, 0, 0, 0))
        return self.ifaces[name]

    def wl_object(self, iface, oid, resource_client=0, as_proxy=False):
        """a wl_resource (server) / wl_proxy (client): both start with a struct wl_object"""
        obj = struct.pack('<QQI4x', self.interface(iface), 0xdeadbeef00, oid & 0xffffffff)
        if as_proxy:
            body = obj + b'\xcc' * 72
        else:
            body = obj + struct.pack('<Q', 0) + b'\xcc' * 32 + struct.pack('<QQ', resource_client, 0)
        return self.put(body)

    def connection(self):
        """the address of a wl_connection: only ever used as a number by the plugin (never dereferenced), so the harness is
        free to hand out addresses from different 'heaps' that agree in their low 32 (and 16) bits"""
        self.n_conn = getattr(self, 'n_conn', 0) + 1
        low = 0x5576a2a0 + (self.n_conn // 3) * 0x40
        high = [0x5555, 0x7fff, 0x7f3a][self.n_conn % 3]
        return (high << 32) | low

    def client(self, conn):
        return self.put(struct.pack('<QQQ', conn, 0, 0))

    def display(self, conn):
        # struct wl_display { struct wl_proxy proxy; struct wl_connection *connection; int last_error; }
        off = self.gdb.S_WL_DISPLAY.field('connection').bitpos // 8
        return self.put(b'\xdd' * off + struct.pack('<Qi4x', conn, 0))

    def closure(self, c, new_id_as_object=False):
        """c: printer-style closure + 'sig' (the signature string with optional version digits and ?)"""
        n = len(c['args'])
        types = []
        slots = []
        for a in c['args']:
            k = a['k']
            junk = 0xAAAAAAAA
            t = 0
            if k == 'i' or k == 'h':
                slot = struct.pack('<iI', a['v'], junk)
            elif k == 'u':
                slot = struct.pack('<II', a['v'], junk)
            elif k == 'f':
                slot = struct.pack('<iI', a['v'], junk)
            elif k == 's':
                slot = struct.pack('<Q', self.cstr(a['v']))
            elif k == 'o':
                t = self.interface(a.get('decl'))
                slot = struct.pack('<Q', 0 if a['v'] is None else self.wl_object(a['v']['iface'], a['v']['id'], as_proxy=True))
            elif k == 'n':
                t = self.interface(a.get('iface'))
                if new_id_as_object:
                    slot = struct.pack('<Q', self.wl_object(a.get('iface') or 'wl_unknown', a['v'], as_proxy=True))
                else:
                    slot = struct.pack('<II', a['v'], junk)
            elif k == 'a':
                raw = b''.join(struct.pack('<i', x) for x in a['data']) + bytes(a.get('extra_bytes', 0))
                if not raw and a.get('null_data'):
                    data, alloc = 0, 0
                else:
                    data, alloc = (self.put(raw) if raw else self.put(b'')), len(raw) + 8
                slot = struct.pack('<Q', self.put(struct.pack('<QQQ', len(raw), alloc, data)))
            else:
                raise ValueError(k)
            types.append(t)
            slots.append(slot)
        while len(slots) < 20:
            slots.append(struct.pack('<Q', 0xBBBBBBBBBBBBBBBB))
        types_addr = self.put(b''.join(struct.pack('<Q', t) for t in types) + struct.pack('<Q', 0)) if True else 0
        msg = self.put(struct.pack('<QQQ', self.cstr(c['name']), self.cstr(c['sig']), types_addr))
        body = struct.pack('<i4xQII', n, msg, c.get('opcode', 0), c['id'] & 0xffffffff) + b''.join(slots) + struct.pack('<QQQ', 0, 0, 0)
        return self.put(body)


def signature_of(rng, c):
    s = ''
    if rng.random() < 0.4:
        s += str(rng.choice([1, 2, 3, 7, 9, 10, 12, 20, 30, 100, 101, 110]))      # (since-versions with a 0 in them too)
    for a in c['args']:
        if rng.random() < 0.25:
            s += '?'
        s += a['k']
    return s


class Sim:
    """GDB's run loop: for each inferior event call stop() on the breakpoints set on that function"""

    def __init__(self, world):
        self.w = world
        self.gdb = world.gdb
        self.halted = False
        self.exceptions = []

    def _val(self, type_, addr):
        return self.gdb.Value(type_, imm=addr)

    def frames_for(self, ev):
        g = self.gdb
        kind = ev['kind']
        if kind == 'recv':
            clo = self._val(g.S_WL_CLOSURE.pointer(), ev['closure'])
            tgt = self._val(g.S_WL_OBJECT.pointer(), ev['target'])
            if ev['side'] == 'client':
                older = g.Frame('dispatch_event', {'display': self._val(g.S_WL_DISPLAY.pointer(), ev['display'])})
            else:
                older = g.Frame('wl_client_connection_data', {'client': self._val(g.S_WL_CLIENT.pointer(), ev.get('client', 0))})
            return ev.get('func', 'wl_closure_invoke'), g.Frame(ev.get('func', 'wl_closure_invoke'), {'closure': clo, 'target': tgt}, older)
        if kind == 'send':
            clo = self._val(g.S_WL_CLOSURE.pointer(), ev['closure'])
            conn = self._val(g.S_WL_CONNECTION.pointer(), ev['connection'])
            older = g.Frame(ev.get('func', 'wl_closure_send'), {'closure': clo, 'connection': conn})
            return 'serialize_closure', g.Frame('serialize_closure', {'closure': clo, 'connection': conn, 'buf': self._val(g.T_VOID.pointer(), 0)}, older)
        if kind == 'destroy':
            conn = self._val(g.S_WL_CONNECTION.pointer(), ev['connection'])
            return 'wl_connection_destroy', g.Frame('wl_connection_destroy', {'connection': conn})
        if kind == 'enter':
            # the inferior passes through some other libwayland function (the plugin has no business there)
            types = {'client': g.S_WL_CLIENT, 'display': g.S_WL_DISPLAY, 'connection': g.S_WL_CONNECTION}
            return ev['func'], g.Frame(ev['func'], {k: self._val(types[k].pointer(), v) for k, v in ev['vars'].items()})
        raise ValueError(kind)

    def deliver(self, ev):
        """-> (halted?, exception or None)"""
        g = self.gdb
        func, frame = self.frames_for(ev)
        g.STATE.frame = frame
        g.STATE.thread = g.Thread(ev.get('thread', 1))
        stop = False
        exc = None
        for bp in list(g.STATE.breakpoints):
            if bp.spec == func and bp.enabled:
                try:
                    if bp.stop():
                        stop = True
                except BaseException as e:      # gdb prints the traceback and STOPS the inferior
                    exc = e
                    stop = True
        self.halted = stop
        return stop, exc

    def command(self, name, arg):
        """the user types `<name> <arg>` at the (gdb) prompt while the inferior is halted (or not started)"""
        g = self.gdb
        cmd = g.STATE.commands[name]
        n0 = len(g.STATE.executed)
        cmd.invoke(arg, True)
        return g.STATE.executed[n0:]


# other entry points of libwayland a live program passes through all the time, with the parameter that leads to the connection
OTHER_FUNCTIONS = {'wl_client_destroy': 'client', 'wl_client_flush': 'client', 'wl_client_get_credentials': 'client', 'wl_client_post_no_memory': 'client',
                   'wl_display_disconnect': 'display', 'wl_display_flush': 'display', 'wl_display_roundtrip': 'display', 'wl_display_dispatch_pending': 'display',
                   'wl_display_read_events': 'display', 'wl_display_get_error': 'display',
                   'wl_connection_flush': 'connection', 'wl_connection_read': 'connection', 'wl_connection_write': 'connection', 'wl_connection_consume': 'connection'}
TEARDOWN = {'client': 'wl_display_disconnect', 'server': 'wl_client_destroy'}


class GdbSession:
    """The unmodified plugin (backends.gdb_plugin.plugin.Plugin + Controller + ConnectionManager) running on the shim,
    wired as main.main() wires it in GDB_PLUGIN mode.  Output goes through plugin.output_streams() -> gdb.write."""

    def __init__(self, filter_text=None, stop_text=None, show_unprocessed=True, verbose=False, color=False):
        from . import env
        env.load_protocols()
        env.reset_globals(color)
        self.world = World()
        self.gdb = self.world.gdb
        self.gdb.reset()
        self.sim = Sim(self.world)
        from core import matcher, ConnectionManager
        from core.output import Output
        from frontends.tui import Controller
        from backends import gdb_plugin
        out_stream, err_stream = gdb_plugin.plugin.output_streams()
        self.output = Output(verbose, show_unprocessed, out_stream, err_stream)
        self.cm = ConnectionManager()
        fm = matcher.parse(filter_text).simplify() if filter_text else matcher.always
        sm = matcher.parse(stop_text).simplify() if stop_text else matcher.never
        self.ctl = Controller(self.output, self.cm, fm, sm)
        self.plugin = gdb_plugin.plugin.Plugin(self.output, self.cm, self.ctl, self.ctl)
        self.conns = {}         # harness connection key -> dict(addr, display/client, side)

    def written_since(self, n0):
        return [s.rstrip('\n') for _, s in self.gdb.STATE.written[n0:]]

    def mark(self):
        return len(self.gdb.STATE.written), len(self.gdb.STATE.executed)

    def new_connection(self, key, side, owner_of=None):
        """owner_of: key of an earlier (destroyed) connection of the same side whose wl_display / wl_client struct address
        malloc hands out again - now pointing to this connection, which is somewhere else"""
        w = self.world
        addr = w.connection()
        c = {'addr': addr, 'side': side}
        self._owner(c, side, addr, owner_of)
        self.conns[key] = c
        return c

    def _owner(self, c, side, addr, owner_of):
        w = self.world
        old = self.conns.get(owner_of) if owner_of is not None else None
        if side == 'client':
            if old is not None and 'display' in old:
                off = self.gdb.S_WL_DISPLAY.field('connection').bitpos // 8
                w.mem.write(old['display'] + off, struct.pack('<Q', addr))
                c['display'] = old['display']
            else:
                c['display'] = w.display(addr)
        else:
            if old is not None and 'client' in old:
                w.mem.write(old['client'], struct.pack('<Q', addr))
                c['client'] = old['client']
            else:
                c['client'] = w.client(addr)

    def reuse_address(self, key, old_key, side, owner_of=None):
        """a later connection at the same address (libwayland freed and re-allocated the wl_connection)"""
        addr = self.conns[old_key]['addr']
        c = {'addr': addr, 'side': side}
        self._owner(c, side, addr, owner_of)
        self.conns[key] = c
        return c

    def event_for(self, key, rec, rng=None, thread=1):
        """history record -> inferior event at the breakpoint the plugin sets"""
        w = self.world
        c = self.conns[key]
        request = rec['send_c']
        sending = request if c['side'] == 'client' else not request
        args = []
        for a in rec['args']:
            a = dict(a)
            if a['k'] == 'o':
                a['decl'] = None if a['v'] is None else a['v']['iface']
            args.append(a)
        sig = ''.join(a['k'] for a in args)
        if rng is not None:
            sig = signature_of(rng, {'args': args})
        clo_desc = {'name': rec['name'], 'id': rec['id'], 'args': args, 'sig': sig}
        if sending:
            clo = w.closure(clo_desc)
            return {'kind': 'send', 'closure': clo, 'connection': c['addr'], 'thread': thread,
                    'func': 'wl_closure_send' if rng is None or rng.random() < 0.5 else 'wl_closure_queue'}
        if c['side'] == 'client':
            clo = w.closure(clo_desc, new_id_as_object=True)
            return {'kind': 'recv', 'side': 'client', 'closure': clo, 'target': w.wl_object(rec['iface'], rec['id'], as_proxy=True),
                    'display': c['display'], 'thread': thread, 'func': 'wl_closure_invoke' if rng is None or rng.random() < 0.5 else 'wl_closure_dispatch'}
        clo = w.closure(clo_desc)
        return {'kind': 'recv', 'side': 'server', 'closure': clo, 'target': w.wl_object(rec['iface'], rec['id'], resource_client=c['client']),
                'client': c['client'], 'thread': thread, 'func': 'wl_closure_invoke' if rng is None or rng.random() < 0.5 else 'wl_closure_dispatch'}

    def deliver(self, ev):
        return self.sim.deliver(ev)

    def enter(self, key, func, thread=1):
        """the inferior enters another libwayland function on behalf of this connection"""
        c = self.conns[key]
        var = OTHER_FUNCTIONS[func]
        return self.sim.deliver({'kind': 'enter', 'func': func, 'vars': {var: c['addr'] if var == 'connection' else c[var]}, 'thread': thread})

    def destroy(self, addr, thread=1):
        return self.sim.deliver({'kind': 'destroy', 'connection': addr, 'thread': thread})
