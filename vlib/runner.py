"""Shared runner: sharding, verdict discipline, replay files, known findings, evidence.

A check module (vlib/checks/cXX.py) provides
    PROPERTY      'C01'
    RULE          str   how cases are generated and what makes a case distinct / non-trivial
    ASSUMPTIONS   [str]
    REQUIRED      [ 'relative/file.py:qualname', ... ]  deciding code that must have been executed
    plan(tier, seed) -> [spec, ...]          JSON-able shard specs
    run(ctx, spec)                            run one shard, report through ctx
    replay(ctx, case)                         re-run one stored case (optional)
    finalize(merged) -> [str]                 extra inconclusive reasons (optional)
"""
import hashlib
import importlib
import json
import os
import random
import subprocess
import sys
import tempfile
import time

VERIF = os.path.dirname(os.path.dirname(os.path.abspath(__file__)))
REPO = os.environ.get('VERIF_REPO', '/repo')
PY = '/venv/bin/python'

MAX_VIOL_PER_SHARD = 40
MAX_SAMPLES = 6


def h64(x) -> str:
    if not isinstance(x, (bytes, str)):
        x = json.dumps(x, sort_keys=True, default=repr)
    if isinstance(x, str):
        x = x.encode('utf-8', 'surrogatepass')
    return hashlib.blake2b(x, digest_size=8).hexdigest()


class Ctx:
    """What a shard reports into.  Everything is JSON-able."""

    def __init__(self, prop, tier, seed, spec):
        self.prop = prop
        self.tier = tier
        self.seed = seed
        self.spec = spec
        self.rng = random.Random(h64([prop, seed, spec.get('shard', 0), spec.get('salt', '')]))
        self.evaluations = 0
        self.sigs = set()
        self.samples = []
        self.counters = {}
        self.sets = {}
        self.violations = []
        self.suppressed_violations = 0
        self.inconclusive = []
        self.t0 = time.time()
        self.deadline = self.t0 + float(spec.get('budget_s', 1e9))

    # --- reporting -------------------------------------------------------
    def ev(self, n=1):
        self.evaluations += n

    def sig(self, x):
        self.sigs.add(h64(x))

    def count(self, key, n=1):
        self.counters[key] = self.counters.get(key, 0) + n

    def setadd(self, name, value, cap=20000):
        s = self.sets.setdefault(name, set())
        if len(s) < cap:
            s.add(value if isinstance(value, (str, int)) else json.dumps(value, sort_keys=True, default=repr))

    def sample(self, x):
        if len(self.samples) < MAX_SAMPLES:
            self.samples.append(x)

    def violation(self, kind, msg, case, **extra):
        """kind: short mechanism-level tag; msg: human text; case: JSON-able replayable case."""
        if len(self.violations) >= MAX_VIOL_PER_SHARD:
            self.suppressed_violations += 1
            return
        v = {'kind': kind, 'msg': msg, 'case': case}
        v.update(extra)
        self.violations.append(v)

    def heartbeat(self, case, kind='item-unbounded', what=''):
        """bounded progress: announce the item about to be processed.  The runner (another process - neither a signal nor a
        thread can interrupt a regular-expression match or any other long C call) compares the CPU time this worker
        has used since the announcement with the check's ITEM_CPU_BUDGET_S; over budget, the worker is killed and the
        announced case is reported as a violation of kind `kind`.  heartbeat(None) withdraws the announcement."""
        fd = getattr(self, 'hb_fd', None)
        if fd is None:
            return
        data = json.dumps({'case': case, 'kind': kind, 'what': what, 'cpu': time.process_time()} if case is not None else {}, default=repr).encode() + b'\n'
        os.pwrite(fd, data, 0)
        os.ftruncate(fd, len(data))

    def inconc(self, msg):
        if len(self.inconclusive) < 20:
            self.inconclusive.append(msg)

    def out_of_time(self):
        return time.time() > self.deadline

    def result(self):
        return {
            'evaluations': self.evaluations,
            'sigs': sorted(self.sigs),
            'samples': self.samples,
            'counters': self.counters,
            'sets': {k: sorted(v, key=str) for k, v in self.sets.items()},
            'violations': self.violations,
            'suppressed_violations': self.suppressed_violations,
            'inconclusive': self.inconclusive,
            'wall_s': time.time() - self.t0,
        }


def load_check(prop):
    return importlib.import_module('vlib.checks.' + prop.lower())


def repo_env(extra=None):
    env = dict(os.environ)
    env['PYTHONDONTWRITEBYTECODE'] = '1'
    env.setdefault('PYTHONHASHSEED', '0')
    env['VERIF_REPO'] = REPO
    env['PYTHONPATH'] = VERIF
    if extra:
        env.update(extra)
    return env


def proc_cpu_s(pid):
    try:
        with open('/proc/%d/stat' % pid) as f:
            parts = f.read().rsplit(')', 1)[1].split()
        return (int(parts[11]) + int(parts[12])) / os.sysconf('SC_CLK_TCK')
    except Exception:
        return None


def run_shards(prop, tier, seed, specs, jobs, watchdog_s, item_budget_s=None):
    """Run every spec in its own fresh interpreter (that is the 'rebuild': repo modules are imported
    from the working tree).  Returns list of (spec, result-or-None, note)."""
    tmp = tempfile.mkdtemp(prefix='verif-%s-' % prop)
    pending = list(enumerate(specs))
    running = []
    done = {}
    last_item_poll = 0.0
    try:
        while pending or running:
            while pending and len(running) < jobs:
                i, spec = pending.pop(0)
                sp = os.path.join(tmp, 'spec%d.json' % i)
                op = os.path.join(tmp, 'out%d.json' % i)
                lp = os.path.join(tmp, 'log%d.txt' % i)
                with open(sp, 'w') as f:
                    json.dump({'prop': prop, 'tier': tier, 'seed': seed, 'spec': spec}, f)
                lf = open(lp, 'wb')
                env = repo_env(spec.get('env'))
                p = subprocess.Popen([PY, '-B', '-m', 'vlib.worker', sp, op], cwd=VERIF, env=env,
                                     stdout=lf, stderr=subprocess.STDOUT, stdin=subprocess.DEVNULL)
                running.append((i, spec, p, op, lp, lf, time.time()))
            time.sleep(0.02)
            still = []
            poll_items = item_budget_s is not None and time.time() - last_item_poll > 1.0
            if poll_items:
                last_item_poll = time.time()
            for item in running:
                i, spec, p, op, lp, lf, t0 = item
                rc = p.poll()
                if rc is None and poll_items:
                    # per-item CPU budget (bounded progress), decided on the worker's CPU time, not on wall-clock time
                    try:
                        with open(op + '.hb', 'rb') as f:
                            hb = json.loads(f.read().decode() or '{}')
                    except Exception:
                        hb = {}
                    cpu = proc_cpu_s(p.pid)
                    if hb.get('case') is not None and cpu is not None and cpu - hb['cpu'] > item_budget_s:
                        p.kill()
                        p.wait()
                        lf.close()
                        res = {'evaluations': 1, 'sigs': [], 'samples': [], 'counters': {'workers_stopped_over_item_budget': 1}, 'sets': {},
                               'violations': [{'kind': hb.get('kind', 'item-unbounded'), 'case': hb['case'], 'cpu_budget_s': item_budget_s,
                                               'msg': '%s not finished after %.0f CPU seconds (budget %.0f s; the worker was stopped, the rest of its shard is lost)' % (
                                                   hb.get('what') or 'the announced item', cpu - hb['cpu'], item_budget_s)}],
                               'suppressed_violations': 0, 'inconclusive': [], 'wall_s': time.time() - t0}
                        done[i] = (spec, res, '')
                        continue
                if rc is None:
                    if time.time() - t0 > watchdog_s:
                        p.kill()
                        p.wait()
                        lf.close()
                        done[i] = (spec, None, 'watchdog fired after %ds' % watchdog_s)
                    else:
                        still.append(item)
                    continue
                lf.close()
                res = None
                note = ''
                if os.path.exists(op):
                    try:
                        with open(op) as f:
                            res = json.load(f)
                    except Exception as e:  # pragma: no cover
                        note = 'unreadable result: %r' % (e,)
                if res is None:
                    with open(lp, 'rb') as f:
                        tail = f.read()[-3000:].decode('utf-8', 'replace')
                    note = (note + ' worker exit %s, log tail:\n%s' % (rc, tail)).strip()
                done[i] = (spec, res, note)
            running = still
    finally:
        for item in running:
            item[2].kill()
        subprocess.call(['rm', '-rf', tmp])
    return [done[i] for i in sorted(done)]


def merge(results):
    m = {'evaluations': 0, 'sigs': set(), 'samples': [], 'counters': {}, 'sets': {}, 'violations': [],
         'suppressed_violations': 0, 'inconclusive': [], 'shards': 0, 'shards_failed': 0, 'shard_wall_s': 0.0}
    for spec, res, note in results:
        m['shards'] += 1
        if res is None:
            m['shards_failed'] += 1
            m['inconclusive'].append('shard %s: %s' % (spec.get('shard'), note))
            continue
        m['evaluations'] += res['evaluations']
        m['sigs'].update(res['sigs'])
        for s in res['samples']:
            if len(m['samples']) < MAX_SAMPLES:
                m['samples'].append(s)
        for k, v in res['counters'].items():
            m['counters'][k] = m['counters'].get(k, 0) + v
        for k, v in res['sets'].items():
            m['sets'].setdefault(k, set()).update(v)
        for v in res['violations']:
            v['shard_spec'] = spec
            m['violations'].append(v)
        m['suppressed_violations'] += res['suppressed_violations']
        m['inconclusive'] += res['inconclusive']
        m['shard_wall_s'] += res['wall_s']
    return m


def main(prop, tier, seed, jobs=None, replay=None):
    from . import kf
    t0 = time.time()
    chk = load_check(prop)
    jobs = jobs or min(16, os.cpu_count() or 4)
    if replay:
        with open(replay) as f:
            rp = json.load(f)
        specs = [{'shard': 'replay', 'replay_case': rp['case'], 'replay_kind': rp.get('kind')}]
        specs[0].update({k: v for k, v in (rp.get('shard_spec') or {}).items() if k in ('env', 'mode')})
        tier = rp.get('tier', tier)
        seed = rp.get('seed', seed)
    else:
        specs = chk.plan(tier, seed)
        for i, s in enumerate(specs):
            s.setdefault('shard', i)
    watchdog = getattr(chk, 'WATCHDOG_S', {'quick': 600, 'thorough': 7200}).get(tier, 600)
    results = run_shards(prop, tier, seed, specs, jobs, watchdog, getattr(chk, 'ITEM_CPU_BUDGET_S', None))
    m = merge(results)

    # ---- classify violations -------------------------------------------
    known_seen = {}
    fresh = []
    for v in m['violations']:
        k = kf.classify(prop, v)
        if k is not None:
            known_seen.setdefault(k['id'], [k, 0])[1] += 1
        else:
            fresh.append(v)
    os.makedirs(os.path.join(VERIF, 'replays', prop), exist_ok=True)
    lines = []
    seen_kinds = {}
    for v in fresh:
        seen_kinds[v['kind']] = seen_kinds.get(v['kind'], 0) + 1
        if seen_kinds[v['kind']] > 3:
            continue  # at most three replays per mechanism tag
        name = '%s-%s.json' % (v['kind'].replace('/', '_').replace(' ', '_')[:40], h64([v['case'], v['msg']]))
        path = os.path.join(VERIF, 'replays', prop, name)
        with open(path, 'w') as f:
            json.dump({'property': prop, 'tier': tier, 'seed': seed, 'kind': v['kind'], 'msg': v['msg'],
                       'case': v['case'], 'shard_spec': v.get('shard_spec'),
                       'extra': {k: v[k] for k in v if k not in ('kind', 'msg', 'case', 'shard_spec')}},
                      f, indent=1, default=repr)
        lines.append((path, v))

    # ---- inconclusive? -----------------------------------------------------
    inconc = list(m['inconclusive'])
    if not replay:
        if m['evaluations'] == 0:
            inconc.append('no evaluations')
        reached = m['sets'].get('reached', set())
        if os.environ.get('VERIF_DUMP_REACHED'):
            with open(os.environ['VERIF_DUMP_REACHED'], 'a') as f:
                for r in sorted(reached):
                    f.write('%s %s\n' % (prop, r))
        for need in getattr(chk, 'REQUIRED', []):
            if need not in reached:
                inconc.append('deciding code never executed: ' + need)
        if hasattr(chk, 'finalize'):
            inconc += list(chk.finalize(m) or [])

    # ---- evidence ------------------------------------------------------------
    wall = time.time() - t0
    if not replay:
        observed = {
            'counters': dict(sorted(m['counters'].items())),
            'distinct': {k: len(v) for k, v in sorted(m['sets'].items())},
            'deciding_functions_reached': sorted(set(getattr(chk, 'REQUIRED', [])) & set(m['sets'].get('reached', []))),
            'shards': m['shards'], 'shards_failed': m['shards_failed'],
            'known_findings_seen': {k: n for k, (e, n) in known_seen.items()},
            'inconclusive': inconc[:10],
            'violation_kinds': seen_kinds,
        }
        for k in list(m['sets']):
            if k.startswith('show:'):
                observed[k[5:]] = sorted(m['sets'][k], key=str)[:200]
        ev = {
            'property_id': prop, 'tier': tier, 'seed': seed,
            'level': getattr(chk, 'LEVEL', 'exploration'),
            'coverage': {
                'evaluations': m['evaluations'],
                'distinct_nontrivial': len(m['sigs']),
                'rule': chk.RULE,
                'samples': m['samples'] or ['(none)'],
                'observed': observed,
            },
            'assumptions': list(getattr(chk, 'ASSUMPTIONS', [])),
            'wall_s': round(wall, 2),
            'violations': len(fresh) + m['suppressed_violations'] * (1 if fresh else 0),
        }
        if getattr(chk, 'EXHAUSTIVE', None):
            ev['coverage']['exhaustive'] = bool(chk.EXHAUSTIVE(tier)) if callable(chk.EXHAUSTIVE) else True
        evdir = os.environ.get('VERIF_EVIDENCE_DIR') or os.path.join(VERIF, 'evidence')
        os.makedirs(evdir, exist_ok=True)
        with open(os.path.join(evdir, prop + '.json'), 'w') as f:
            json.dump(ev, f, indent=1, default=repr)
            f.write('\n')

    # ---- verdict ---------------------------------------------------------------
    for kid, (entry, n) in sorted(known_seen.items()):
        print('KNOWN-FINDING: property=%s %s [%s, seen %d times]' % (prop, entry['what'], kid, n))
    for path, v in lines:
        print('VIOLATION property=%s replay=%s' % (prop, path))
        print('    %s: %s' % (v['kind'], str(v['msg'])[:600]))
    if fresh:
        print('%s: %d violation(s) in %d evaluations (%d distinct), %.1fs' % (
            prop, len(fresh) + m['suppressed_violations'], m['evaluations'], len(m['sigs']), wall))
        return 1
    if inconc:
        for s in inconc[:10]:
            print('INCONCLUSIVE property=%s %s' % (prop, s))
        return 2
    print('%s: held on %d evaluations (%d distinct non-trivial), %d shards, %.1fs [%s, seed %d]' % (
        prop, m['evaluations'], len(m['sigs']), m['shards'], wall, tier, seed))
    return 0
