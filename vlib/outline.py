"""Independent tokenizer of what the user sees (applied after stripping SGR codes)."""
import ast
import re

SGR = re.compile(r'\x1b\[[\d;]*m')


def strip_sgr(s):
    return SGR.sub('', s)


OBJ = r'(?:(unresolved) )?([\w?.\-]+?)@(\d+)([a-z]+|\?)'
MSG_RE = re.compile(
    r'^\s*(?P<time>-?\d+\.\d{4}) (?P<conn>\w*): (?P<sent>→ )?' +
    r'(?P<tun>unresolved )?(?P<ttype>[^@\s]+)@(?P<tid>\d+)(?P<tgen>[a-z]+|\?)\.(?P<name>\w+)\((?P<args>.*)\)' +
    r'(?: -- (?P<dun>unresolved )?(?P<dtype>[^@\s]+)@(?P<did>\d+)(?P<dgen>[a-z]+|\?)\.destroyed(?: after (?P<life>-?\d+\.\d{4})s)?)?' +
    r'(?P<recv> ↲)?$', re.S)
NOTICE_RE = re.compile(r'^(New|Closed) (client|server|unknown type) connection (\w+)$')
SEP_RE = re.compile(r'^    ───┤ (-?\d+\.\d{4})s ├───$')
PASS_PREFIX = ' ' * 6 + ' |  '
STOP_PREFIX = '    Stopped at '
LIST_HEAD_RE = re.compile(r'^Messages that match (?P<m>.*?)(?: on connection (?P<c>\w+))?:$', re.S)
COUNT_RE = re.compile(r"^\((\d+) matched, (\d+) didn't(?:, (\d+) not checked)?\)$")
NONE_RE = re.compile(r'^ ╰╴ None of the (\d+) messages so far$')
OBJ_TOKEN_RE = re.compile(r'^(?P<new>new )?(?P<un>unresolved )?(?P<type>[^@\s]+)@(?P<id>\d+)(?P<gen>[a-z]+|\?)$')
NAME_RE = re.compile(r'^([A-Za-z_][\w\-]*)=')
INT_RE = re.compile(r'^(-?\d+)(?::(.*))?$', re.S)


def _scan_pystr(s, i):
    """s[i] is a quote; return index after the closing quote of the Python literal."""
    q = s[i]
    j = i + 1
    while j < len(s):
        if s[j] == '\\':
            j += 2
            continue
        if s[j] == q:
            return j + 1
        j += 1
    raise ValueError('unterminated string literal')


def split_args(s):
    """Split the text between the parentheses on ', ' outside Python string literals and brackets."""
    out = []
    i = 0
    start = 0
    n = len(s)
    at_value_start = True
    while i < n:
        c = s[i]
        if at_value_start:
            m = NAME_RE.match(s, i) if False else None
        if c in '\'"' and _value_start(s, start, i):
            i = _scan_pystr(s, i)
            continue
        if c == '[' and _value_start(s, start, i):
            depth = 0
            while i < n:
                if s[i] == '[':
                    depth += 1
                elif s[i] == ']':
                    depth -= 1
                    if depth == 0:
                        i += 1
                        break
                i += 1
            continue
        if s.startswith(', ', i):
            out.append(s[start:i])
            i += 2
            start = i
            continue
        i += 1
    if n != start or out:
        out.append(s[start:])
    return out


def _value_start(s, start, i):
    """is position i the start of a value of the token beginning at `start`?"""
    head = s[start:i]
    if head == '' or head == 'Unknown: ':
        return True
    m = NAME_RE.match(head)
    if m:
        rest = head[m.end():]
        return rest == '' or rest == 'Unknown: '
    return False


def parse_arg(tok):
    """-> dict(name, kind, value, labels, obj, raw)"""
    name = None
    m = NAME_RE.match(tok)
    body = tok
    if m and not tok.startswith(('null ', 'new ', 'fd ')):
        name = m.group(1)
        body = tok[m.end():]
    elif m:
        # 'new=...' etc. are names too when followed by '='; NAME_RE needs '=' so this branch means the token
        # literally starts with e.g. 'null ' - not a name
        pass
    d = {'name': name, 'raw': tok, 'labels': None, 'obj': None}
    if body[:1] in ('"', "'"):
        try:
            d['kind'] = 'str'
            d['value'] = ast.literal_eval(body)
        except Exception:
            d['kind'] = 'bad'
            d['value'] = body
        return d
    if body.startswith('Unknown: '):
        d['kind'] = 'unknown'
        try:
            d['value'] = ast.literal_eval(body[len('Unknown: '):])
        except Exception:
            d['value'] = body
        return d
    if body == '?':
        d['kind'] = 'unknown'
        d['value'] = None
        return d
    if body.startswith('null '):
        d['kind'] = 'nil'
        d['value'] = body[5:]
        return d
    if body.startswith('fd '):
        d['kind'] = 'fd'
        try:
            d['value'] = int(body[3:])
        except ValueError:
            d['kind'] = 'bad'
            d['value'] = body
        return d
    if body == '[...]':
        d['kind'] = 'array'
        d['value'] = None
        return d
    if body.startswith('[') and body.endswith(']'):
        d['kind'] = 'array'
        inner = body[1:-1]
        d['value'] = [parse_arg(t) for t in split_args(inner)] if inner else []
        return d
    om = OBJ_TOKEN_RE.match(body)
    if om:
        d['kind'] = 'new' if om.group('new') else 'obj'
        d['obj'] = {'resolved': om.group('un') is None, 'type': om.group('type'), 'id': int(om.group('id')),
                    'gen': om.group('gen')}
        d['value'] = (om.group('type'), int(om.group('id')))
        return d
    im = INT_RE.match(body)
    if im:
        d['kind'] = 'int'
        d['value'] = int(im.group(1))
        if im.group(2) is not None:
            d['labels'] = im.group(2).split('&')
        return d
    try:
        d['value'] = float(body)
        d['kind'] = 'float'
    except ValueError:
        d['kind'] = 'bad'
        d['value'] = body
    return d


def parse_line(text):
    """Classify one item written to a stream (colour already stripped)."""
    m = MSG_RE.match(text)
    if m:
        d = {'kind': 'msg', 'time': m.group('time'), 'conn': m.group('conn'), 'sent': m.group('sent') is not None,
             'recv_mark': m.group('recv') is not None,
             'target': {'resolved': m.group('tun') is None, 'type': m.group('ttype'), 'id': int(m.group('tid')),
                        'gen': m.group('tgen')},
             'name': m.group('name'), 'args_text': m.group('args'), 'destroyed': None, 'life': m.group('life'),
             'text': text}
        if m.group('did') is not None:
            d['destroyed'] = {'resolved': m.group('dun') is None, 'type': m.group('dtype'), 'id': int(m.group('did')),
                              'gen': m.group('dgen')}
        try:
            d['args'] = [parse_arg(t) for t in split_args(m.group('args'))]
        except ValueError as e:
            d['args'] = None
            d['args_error'] = str(e)
        return d
    m = NOTICE_RE.match(text)
    if m:
        return {'kind': 'notice', 'what': m.group(1), 'role': m.group(2), 'conn': m.group(3), 'text': text}
    m = SEP_RE.match(text)
    if m:
        return {'kind': 'sep', 'gap': m.group(1), 'text': text}
    if text.startswith(PASS_PREFIX):
        return {'kind': 'pass', 'body': text[len(PASS_PREFIX):], 'text': text}
    if text.startswith(STOP_PREFIX):
        return {'kind': 'stopped', 'body': text[len(STOP_PREFIX):], 'text': text}
    m = COUNT_RE.match(text)
    if m:
        return {'kind': 'count', 'matched': int(m.group(1)), 'didnt': int(m.group(2)),
                'not_checked': int(m.group(3) or 0), 'text': text}
    m = NONE_RE.match(text)
    if m:
        return {'kind': 'none_of', 'n': int(m.group(1)), 'text': text}
    if text == ' ╰╴ No messages yet':
        return {'kind': 'no_messages', 'text': text}
    m = LIST_HEAD_RE.match(text)
    if m:
        return {'kind': 'list_head', 'matcher': m.group('m'), 'conn': m.group('c'), 'text': text}
    return {'kind': 'other', 'text': text}


def msg_key(d):
    """what identifies the content of a message line apart from the time column"""
    return d['text'].split(' ', 1)[1] if d['kind'] == 'msg' else d['text']
