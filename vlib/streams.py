"""Multi-connection streams built from simulated histories, and the line-by-line comparison of what the tool shows
with the ground truth."""
import re
from decimal import Decimal

from . import history, printer, outline

FLOAT_RE = r'(-?(?:\d+\.?\d*(?:e[+-]?\d+)?|inf|nan))'
LIFE_RE = r'(-?\d+\.\d{4})s'
TIME_SPLIT = re.compile(r'^\s*(-?\d+\.\d{4}) (.*)$', re.S)


def conn_name(n):
    n += 1
    s = ''
    while n > 0:
        n -= 1
        s = chr(ord('A') + n % 26) + s
        n //= 26
    return s


def build(rng, cands, k=1, n_each=100, tagged=None, dialect=None, opts=None, interleave=None, sides=None, t0=None):
    """-> dict(entries=[{line, tag, ci, rec, side, k}], sims, dialect, names={tag: name}, order=[tag...])"""
    dialect = dialect or printer.gen_dialect(rng)
    tagged = (k > 1) if tagged is None else tagged
    sims = []
    tags = rng.sample(range(0, 500), k) if tagged else [None]
    if tagged and (opts or {}).get('lookalike_tags') and rng.random() < 0.35:
        # a tag is a word: tags that differ only by leading zeros, by case, by an underscore are different tags
        fam = rng.choice([['7', '07', '007', '0007', '70'], ['a', 'A', 'aA', 'Aa', 'AA'], ['1', '1_', '_1', '__1', '1__'], ['x1', 'X1', 'x01', 'x_1', 'x1x'],
                          ['0', '00', '000', '0000', '_'], ['conn', 'Conn', 'CONN', 'conn_', 'conn0']])
        if len(fam) >= k:
            tags = rng.sample(fam, k)
    if t0 is None:
        t0 = rng.choice([0, 1000, 770203519, rng.randint(0, 4 * 10**9)])
    for i in range(k):
        o = dict(opts or {})
        o.setdefault('hot', rng.choice([0.0, 0.08, 0.08, 0.3, 0.6]))
        o.setdefault('first', rng.choice(['get_registry', 'get_registry', 'get_registry', 'sync', None]))
        o['start_us'] = t0
        n = n_each if isinstance(n_each, int) else rng.randint(*n_each)
        sims.append(history.generate(rng, cands, n, o))
    side = [(sides[i] if sides else rng.choice(['client', 'client', 'server'])) for i in range(k)]
    queue = [rng.choice([None, 'Default Queue', 'Display Queue', 'Default Queue', 'mesa egl surface queue', 'wl-egl surface queue', 'Qt.EventQueue',
                        'gdk: frame clock', 'main (client #2)', 'q{x', '<7>', '', 'Ünï']) if dialect['new'] else None for i in range(k)]
    # interleave preserving per-connection order; the stream's clock must be non-decreasing: merge by time, and among
    # equal/any choose by strategy - times are re-stamped so the stream is non-decreasing whatever the interleaving
    pos = [0] * k
    strategy = interleave or rng.choice(['uniform', 'roundrobin', 'bursts', 'first'])
    order = []
    remaining = [len(s.hist) for s in sims]
    cur = 0
    burst = 0
    while sum(remaining) > 0:
        live = [i for i in range(k) if remaining[i] > 0]
        if strategy == 'uniform':
            i = rng.choice(live)
        elif strategy == 'roundrobin':
            cur = (cur + 1) % k
            while cur not in live:
                cur = (cur + 1) % k
            i = cur
        elif strategy == 'bursts':
            if burst <= 0 or cur not in live:
                cur = rng.choice(live)
                burst = rng.randint(1, 40)
            burst -= 1
            i = cur
        else:  # 'first': one connection completely first, then uniform
            i = live[0] if remaining[0] > 0 else rng.choice(live)
        order.append(i)
        remaining[i] -= 1
    entries = []
    clock = t0
    last_t = [t0] * k
    for i in order:
        rec = sims[i].hist[pos[i]]
        pos[i] += 1
        # keep each connection's own gaps, on one non-decreasing stream clock
        gap = rec['t_us'] - last_t[i]
        last_t[i] = rec['t_us']
        clock = max(0, clock + gap)       # (a clock stepping backwards never goes below zero: libwayland prints unsigned times)
        if (opts or {}).get('wrap'):
            clock %= 2 ** 32              # libwayland's 32-bit microsecond counter starts again from zero every 71.6 minutes
        rec = dict(rec)
        rec['t_conn_us'] = rec['t_us']
        rec['t_us'] = clock
        entries.append({'tag': tags[i], 'ci': i, 'rec': rec, 'side': side[i], 'k': pos[i] - 1, 'queue': queue[i],
                        'line': history.render(rec, side[i], dialect, tags[i], queue[i])})
    names = {}
    for e in entries:
        if e['ci'] not in names:
            names[e['ci']] = conn_name(len(names))
    # creation times on the stream clock (lifespans are differences on the stream clock)
    return {'entries': entries, 'sims': sims, 'dialect': dialect, 'names': names, 'tags': tags, 'sides': side,
            'strategy': strategy, 'k': k, 'monotonic': not ((opts or {}).get('backsteps') or (opts or {}).get('wrap'))}


def stream_created_times(st):
    """{(ci, id, gen): stream time of the creating message}"""
    res = {}
    for e in st['entries']:
        for o in e['rec']['gt']['objs']:
            if o[1] == 'new':
                res[(e['ci'], o[3], o[4])] = e['rec']['t_us']
    return res


def role_of(st, ci):
    """what the log backend can know: role from the direction of get_registry if it is the connection's first message"""
    for e in st['entries']:
        if e['ci'] == ci:
            if e['rec']['name'] == 'get_registry':
                sent = e['rec']['send_c'] if e['side'] == 'client' else not e['rec']['send_c']
                return 'client' if sent else 'server'
            return 'unknown type'
    return None


def compare_line(actual, exp_text, exp_floats):
    """-> (problem|None, time_str, life_str)"""
    m = TIME_SPLIT.match(actual)
    if not m:
        return ('no time column', None, None)
    time_s, rest = m.groups()
    parts = re.split(r'(FLOAT|LIFE)', exp_text)
    rx = ''.join(FLOAT_RE if p == 'FLOAT' else LIFE_RE if p == 'LIFE' else re.escape(p) for p in parts)
    mm = re.fullmatch(rx, rest, re.S)
    if not mm:
        return ('text differs', time_s, None)
    gi = 0
    life = None
    fi = 0
    for p in parts:
        if p == 'FLOAT':
            got = float(mm.group(gi + 1))
            gi += 1
            if got != exp_floats[fi]:
                return ('fixed value %r shown, %r denoted' % (got, exp_floats[fi]), time_s, None)
            fi += 1
        elif p == 'LIFE':
            life = mm.group(gi + 1)
            gi += 1
    return (None, time_s, life)


def exp_floats(rec, dialect):
    return [printer.expected_arg(a, dialect)[1] for a in rec['args'] if a['k'] == 'f']


def within_one_unit(shown, exact_us_diff):
    """shown: 'N.NNNN' seconds; exact: microseconds (int) -> |shown - exact| <= 1 unit of the 4th decimal (+ half for rounding)"""
    exact = Decimal(exact_us_diff) / Decimal(1000000)
    return abs(Decimal(shown) - exact) <= Decimal('0.00015')


def shifted_lines(st, shift_us, dialect=None):
    """the same stream with a constant added to every time (optionally in another dialect / decimal mark)"""
    out = []
    d = dialect or st['dialect']
    for e in st['entries']:
        rec = dict(e['rec'])
        rec['t_us'] = e['rec']['t_us'] + shift_us
        out.append(history.render(rec, e['side'], d, e['tag'], e['queue'] if d['new'] else None))
    return out


def app_id_of(rec):
    """the app id a message gives its connection (set_app_id with a non-empty string), else None"""
    if rec['name'] == 'set_app_id' and rec['args'] and rec['args'][0]['k'] == 's' and rec['args'][0]['v']:
        return rec['args'][0]['v']
    return None


def select_connection(arg, opened, app_ids):
    """`connection ARG`: a connection's name wins over another connection's app id; -> name or None (no such connection)"""
    for n in opened:
        if n.lower() == arg.lower():
            return n
    for n in opened:
        a = app_ids.get(n)
        if a is not None and a.lower() == arg.lower():
            return n
    return None
