#!/bin/bash
# builds the tier-B inferior (plain -O0 -g) and a sanitizer build used stand-alone as harness hygiene; idempotent
cd "$(dirname "$0")"
out=../../build
mkdir -p $out
src=fake_libwayland.c
if [ ! -x $out/fake_libwayland ] || [ $src -nt $out/fake_libwayland ]; then
  gcc -g -O0 -fno-inline -pthread -Wall -Wno-unused-result -o $out/fake_libwayland.tmp $src && mv $out/fake_libwayland.tmp $out/fake_libwayland || exit 1
fi
if [ ! -x $out/fake_libwayland_san ] || [ $src -nt $out/fake_libwayland_san ]; then
  clang -g -O0 -pthread -fsanitize=address,undefined -fno-sanitize-recover=all -Wno-unused-result -o $out/fake_libwayland_san.tmp $src 2>/dev/null && mv $out/fake_libwayland_san.tmp $out/fake_libwayland_san || echo "sanitizer build skipped"
fi
exit 0
