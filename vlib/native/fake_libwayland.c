/* Synthetic libwayland-ABI inferior for tier B (real gdb runs the UNMODIFIED wayland-debug plugin against it).
 *
 * It defines the structures, function names and call chains the plugin breaks on:
 *   dispatch_event -> wl_closure_invoke | wl_closure_dispatch            (client receives)
 *   wl_client_connection_data -> wl_closure_invoke | wl_closure_dispatch (server receives)
 *   wl_closure_send | wl_closure_queue -> serialize_closure              (send)
 *   wl_connection_destroy
 * and interprets an event script written by the harness (vlib/gdbreal.py).  It also writes libwayland's own rendering of
 * every closure (a copy of wl_closure_print, current dialect) to a side file so that the Python port of the printer is
 * cross-checked against C printf.
 *
 * Script (whitespace separated tokens, strings hex encoded, "-" = NULL):
 *   I <name_hex>                                  define interface #k (k = order of definition)
 *   C <side c|s>                                  define connection #k
 *   R <conn> <side>                               a NEW connection object at the address of connection <conn>
 *   D <conn>                                      wl_connection_destroy(conn)        (conn = -1: a never used connection)
 *   E <conn> <thread> <dir r|s> <func 0|1> <iface> <id> <name_hex> <sig_hex> <nargs> { arg }
 *        arg: i <int> | u <uint> | f <int> | h <int> | s <hex|-> | o <iface|-1> <id|0> <decl|-1> | n <id> <decl|-1> | a <nbytes> <hex|->
 */
#define _GNU_SOURCE
#include <stdio.h>
#include <stdlib.h>
#include <string.h>
#include <stdint.h>
#include <pthread.h>

#define NOINLINE __attribute__((noinline))
#define WL_CLOSURE_MAX_ARGS 20
typedef int32_t wl_fixed_t;

struct wl_interface;
struct wl_message { const char *name; const char *signature; const struct wl_interface **types; };
struct wl_interface { const char *name; int version; int method_count; const struct wl_message *methods; int event_count; const struct wl_message *events; };
struct wl_object { const struct wl_interface *interface; const void *implementation; uint32_t id; };
struct wl_array { size_t size; size_t alloc; void *data; };
union wl_argument { int32_t i; uint32_t u; wl_fixed_t f; const char *s; struct wl_object *o; uint32_t n; struct wl_array *a; int32_t h; };
struct wl_list { struct wl_list *prev; struct wl_list *next; };
struct wl_proxy;
struct wl_closure { int count; const struct wl_message *message; uint32_t opcode; uint32_t sender_id; union wl_argument args[WL_CLOSURE_MAX_ARGS];
                    struct wl_list link; struct wl_proxy *proxy; struct wl_array extra[0]; };
struct wl_connection { char in[16]; char out[16]; int fd; int want_flush; int conn_id; };
struct wl_event_queue { struct wl_list event_list; };
struct wl_display;
struct wl_proxy { struct wl_object object; struct wl_display *display; struct wl_event_queue *queue; uint32_t flags; int refcount; void *user_data;
                  void *dispatcher; uint32_t version; const char * const *tag; struct wl_list queue_link; };
struct wl_display { struct wl_proxy proxy; struct wl_connection *connection; int last_error; };
struct wl_client { struct wl_connection *connection; void *source; void *display; };
struct wl_resource { struct wl_object object; void *destroy; struct wl_list link; struct wl_list deprecated_destroy_signal; struct wl_client *client; void *data; };

volatile unsigned long g_seq = 0;      /* number of the event being executed (1-based) */
static FILE *g_print;

/* ---- a copy of libwayland's wl_closure_print (1.23, with the <conn_id> patch when conn_id >= 0) ---- */
static void closure_print(struct wl_closure *closure, struct wl_object *target, int send, int conn_id)
{
    const char *sig = closure->message->signature;
    int i = 0;
    if (!g_print) return;
    fprintf(g_print, "%lu\t[%7u.%03u] ", g_seq, 1000u + (unsigned)g_seq, 0u);
    if (conn_id >= 0) fprintf(g_print, "<%d> ", conn_id);
    fprintf(g_print, "%s%s#%u.%s(", send ? " -> " : "", target->interface->name, target->id, closure->message->name);
    for (; *sig; sig++) {
        char c = *sig;
        if (!strchr("iufsonah", c)) continue;
        if (i > 0) fprintf(g_print, ", ");
        switch (c) {
        case 'u': fprintf(g_print, "%u", closure->args[i].u); break;
        case 'i': fprintf(g_print, "%d", closure->args[i].i); break;
        case 'f':
            if (closure->args[i].f >= 0) fprintf(g_print, "%d.%08d", closure->args[i].f / 256, 390625 * (closure->args[i].f % 256));
            else fprintf(g_print, "-%d.%08d", closure->args[i].f / -256, -390625 * (closure->args[i].f % 256));
            break;
        case 's': if (closure->args[i].s) fprintf(g_print, "\"%s\"", closure->args[i].s); else fprintf(g_print, "nil"); break;
        case 'o': if (closure->args[i].o) fprintf(g_print, "%s#%u", closure->args[i].o->interface->name, closure->args[i].o->id); else fprintf(g_print, "nil"); break;
        case 'n': {
            uint32_t nval = closure->args[i].n;
            fprintf(g_print, "new id %s#", closure->message->types[i] ? closure->message->types[i]->name : "[unknown]");
            if (nval != 0) fprintf(g_print, "%u", nval); else fprintf(g_print, "nil");
            break; }
        case 'a': fprintf(g_print, "array[%zu]", closure->args[i].a->size); break;
        case 'h': fprintf(g_print, "fd %d", closure->args[i].h); break;
        }
        i++;
    }
    fprintf(g_print, ")\n");
    fflush(g_print);
}

/* ---- the functions the plugin breaks on ---- */
NOINLINE void wl_closure_invoke(struct wl_closure *closure, uint32_t flags, struct wl_object *target, uint32_t opcode, void *data)
{ (void)flags; (void)opcode; (void)data; __asm__ volatile("" :: "r"(closure), "r"(target) : "memory"); }

NOINLINE void wl_closure_dispatch(struct wl_closure *closure, void *dispatcher, struct wl_object *target, uint32_t opcode)
{ (void)dispatcher; (void)opcode; __asm__ volatile("" :: "r"(closure), "r"(target) : "memory"); }

NOINLINE void dispatch_event(struct wl_display *display, struct wl_event_queue *queue, struct wl_closure *closure, struct wl_object *target, int use_dispatch)
{
    (void)queue;
    if (use_dispatch) wl_closure_dispatch(closure, NULL, target, closure->opcode);
    else wl_closure_invoke(closure, 1, target, closure->opcode, NULL);
    __asm__ volatile("" :: "r"(display) : "memory");
}

NOINLINE int wl_client_connection_data(int fd, uint32_t mask, void *data, struct wl_closure *closure, struct wl_object *target, int use_dispatch)
{
    struct wl_client *client = data;
    (void)fd; (void)mask;
    if (use_dispatch) wl_closure_dispatch(closure, NULL, target, closure->opcode);
    else wl_closure_invoke(closure, 2, target, closure->opcode, client);
    __asm__ volatile("" :: "r"(client) : "memory");
    return 1;
}

NOINLINE int serialize_closure(struct wl_closure *closure, uint32_t *buffer, size_t buffer_count)
{ __asm__ volatile("" :: "r"(closure), "r"(buffer), "r"(buffer_count) : "memory"); return 0; }

NOINLINE int wl_closure_send(struct wl_closure *closure, struct wl_connection *connection)
{ uint32_t buf[4]; int r = serialize_closure(closure, buf, 4); __asm__ volatile("" :: "r"(connection) : "memory"); return r; }

NOINLINE int wl_closure_queue(struct wl_closure *closure, struct wl_connection *connection)
{ uint32_t buf[4]; int r = serialize_closure(closure, buf, 4); __asm__ volatile("" :: "r"(connection) : "memory"); return r; }

NOINLINE int wl_connection_destroy(struct wl_connection *connection)
{ int fd = connection->fd; __asm__ volatile("" :: "r"(connection) : "memory"); return fd; }

/* ---- script interpreter ---- */
#define MAXI 4096
#define MAXC 256
static struct wl_interface *ifaces[MAXI]; static int n_ifaces;
struct conn { struct wl_connection *c; struct wl_display *display; struct wl_client *client; int side; };
static struct conn conns[MAXC]; static int n_conns;

static char *unhex(const char *h)
{
    size_t n, i; char *out;
    if (strcmp(h, "-") == 0) return NULL;
    if (strcmp(h, "=") == 0) { out = malloc(1); out[0] = 0; return out; }
    n = strlen(h) / 2; out = malloc(n + 1);
    for (i = 0; i < n; i++) { unsigned v; sscanf(h + 2 * i, "%2x", &v); out[i] = (char)v; }
    out[n] = 0; return out;
}

static struct wl_object *make_object(int iface, uint32_t id, struct wl_client *client, int proxy)
{
    if (proxy) { struct wl_proxy *p = calloc(1, sizeof *p); p->object.interface = ifaces[iface]; p->object.id = id; return &p->object; }
    else { struct wl_resource *r = calloc(1, sizeof *r); r->object.interface = ifaces[iface]; r->object.id = id; r->client = client; return &r->object; }
}

static void setup_conn(struct conn *k, struct wl_connection *c, int side)
{
    k->c = c; k->side = side; k->display = NULL; k->client = NULL;
    if (side == 'c') { k->display = calloc(1, sizeof *k->display); k->display->connection = c; }
    else { k->client = calloc(1, sizeof *k->client); k->client->connection = c; }
}

struct event { struct conn *k; int dir, func; struct wl_closure *closure; struct wl_object *target; };

static void run_event(struct event *e)
{
    if (e->dir == 's') {
        closure_print(e->closure, e->target, 1, -1);
        if (e->func) wl_closure_queue(e->closure, e->k->c); else wl_closure_send(e->closure, e->k->c);
    } else {
        closure_print(e->closure, e->target, 0, -1);
        if (e->k->side == 'c') dispatch_event(e->k->display, NULL, e->closure, e->target, e->func);
        else wl_client_connection_data(3, 1, e->k->client, e->closure, e->target, e->func);
    }
}

static void *thread_main(void *p) { run_event(p); return NULL; }

int main(int argc, char **argv)
{
    FILE *f; char tok[1 << 16];
    if (argc < 2) { fprintf(stderr, "usage: %s script [print-out]\n", argv[0]); return 2; }
    f = fopen(argv[1], "r"); if (!f) { perror("script"); return 2; }
    if (argc > 2) g_print = fopen(argv[2], "w");
    while (fscanf(f, "%65535s", tok) == 1) {
        if (!strcmp(tok, "I")) {
            struct wl_interface *i = calloc(1, sizeof *i);
            fscanf(f, "%65535s", tok); i->name = unhex(tok); i->version = 1; ifaces[n_ifaces++] = i;
        } else if (!strcmp(tok, "C")) {
            fscanf(f, "%65535s", tok);
            struct wl_connection *c = calloc(1, sizeof *c); c->fd = 10 + n_conns; c->conn_id = n_conns;
            setup_conn(&conns[n_conns++], c, tok[0]);
        } else if (!strcmp(tok, "R")) {
            int old; fscanf(f, "%d %65535s", &old, tok);
            setup_conn(&conns[n_conns++], conns[old].c, tok[0]);
        } else if (!strcmp(tok, "D")) {
            int k; fscanf(f, "%d", &k); g_seq++;
            if (k < 0) { struct wl_connection *c = calloc(1, sizeof *c); c->fd = 99; wl_connection_destroy(c); free(c); }
            else wl_connection_destroy(conns[k].c);
        } else if (!strcmp(tok, "E")) {
            int k, thread, iface, nargs, func, i; unsigned id; char dir[8]; char name[4096], sig[256];
            struct event e; struct wl_message *m = calloc(1, sizeof *m); struct wl_closure *cl = calloc(1, sizeof *cl);
            const struct wl_interface **types;
            fscanf(f, "%d %d %7s %d %d %u %4095s %255s %d", &k, &thread, dir, &func, &iface, &id, name, sig, &nargs);
            types = calloc(nargs + 1, sizeof *types);
            m->name = unhex(name); m->signature = unhex(sig); m->types = types;
            cl->message = m; cl->count = nargs; cl->sender_id = id;
            memset(cl->args, 0xBB, sizeof cl->args);
            e.k = &conns[k]; e.dir = dir[0]; e.func = func; e.closure = cl;
            for (i = 0; i < nargs; i++) {
                char kind[4]; fscanf(f, "%3s", kind);
                memset(&cl->args[i], 0xAA, sizeof cl->args[i]);
                switch (kind[0]) {
                case 'i': { int v; fscanf(f, "%d", &v); cl->args[i].i = v; break; }
                case 'h': { int v; fscanf(f, "%d", &v); cl->args[i].h = v; break; }
                case 'f': { int v; fscanf(f, "%d", &v); cl->args[i].f = v; break; }
                case 'u': { unsigned v; fscanf(f, "%u", &v); cl->args[i].u = v; break; }
                case 's': { fscanf(f, "%65535s", tok); cl->args[i].s = unhex(tok); break; }
                case 'o': { int oi, decl; unsigned oid; fscanf(f, "%d %u %d", &oi, &oid, &decl);
                            cl->args[i].o = oi < 0 ? NULL : make_object(oi, oid, NULL, 1); types[i] = decl < 0 ? NULL : ifaces[decl]; break; }
                case 'n': { unsigned nid; int decl; fscanf(f, "%u %d", &nid, &decl); types[i] = decl < 0 ? NULL : ifaces[decl];
                            if (e.dir == 'r' && e.k->side == 'c') { cl->args[i].o = make_object(decl < 0 ? 0 : decl, nid, NULL, 1); }
                            else cl->args[i].n = nid;
                            break; }
                case 'a': { size_t nb, j; struct wl_array *a = calloc(1, sizeof *a); char *raw;
                            fscanf(f, "%zu %65535s", &nb, tok);
                            if (nb == 0 && tok[0] == '0') { a->size = 0; a->alloc = 0; a->data = NULL; cl->args[i].a = a; break; }  /* wl_array_init() */
                            raw = malloc(nb + 1);
                            for (j = 0; j < nb; j++) { unsigned v; sscanf(tok + 2 * j, "%2x", &v); raw[j] = (char)v; }
                            a->size = nb; a->alloc = nb + 8; a->data = raw; cl->args[i].a = a; break; }
                default: fprintf(stderr, "bad arg kind %s\n", kind); return 2;
                }
            }
            e.target = make_object(iface, id, e.k->client, e.k->side == 'c');
            g_seq++;
            if (thread <= 1) run_event(&e);
            else { pthread_t t; pthread_create(&t, NULL, thread_main, &e); pthread_join(t, NULL); }
        } else { fprintf(stderr, "bad token %s\n", tok); return 2; }
    }
    if (g_print) fclose(g_print);
    return 0;
}
