"""Known findings: genuine defects recorded rather than repaired, keyed by MECHANISM (a classifier function
per entry), never by case hash or random value.  known_findings.json is read-only at run time.
Entries with status 'fixed' suppress nothing."""
import json
import os

VERIF = os.path.dirname(os.path.dirname(os.path.abspath(__file__)))

CLASSIFIERS = {}


def classifier(fid):
    def deco(f):
        CLASSIFIERS[fid] = f
        return f
    return deco


def entries():
    p = os.path.join(VERIF, 'known_findings.json')
    if not os.path.exists(p):
        return []
    with open(p) as f:
        return json.load(f).get('findings', [])


def classify(prop, v):
    """Return the known-finding entry this violation is an instance of, or None."""
    for e in entries():
        if e.get('status') != 'known' or e.get('property') != prop:
            continue
        fn = CLASSIFIERS.get(e['id'])
        if fn is not None and fn(v):
            return e
    return None


@classifier('K1')
def _k1(v):
    # emitted only by C05's fixed probe: `.NAME(*)` selecting the zero-argument message NAME()
    return v.get('kind') == 'const-true-arg-item' and v.get('case', {}).get('text', '').endswith('(*)')
