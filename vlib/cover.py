"""Was the deciding code reached?  sys.monitoring PY_START with DISABLE after the first hit per code object,
restricted to files of the repository under test."""
import os
import sys


class Cover:
    TOOL = 3

    def __init__(self, repo):
        self.repo = os.path.realpath(repo) + os.sep
        self.hit = set()
        self.on = False

    def start(self):
        mon = getattr(sys, 'monitoring', None)
        if mon is None:
            return
        try:
            mon.use_tool_id(self.TOOL, 'verif-cover')
        except ValueError:
            return
        repo = self.repo
        hit = self.hit

        def py_start(code, offset):
            fn = code.co_filename
            if fn.startswith(repo) or os.path.realpath(fn).startswith(repo):
                hit.add(os.path.realpath(fn)[len(repo):] + ':' + code.co_qualname)
            return mon.DISABLE
        mon.register_callback(self.TOOL, mon.events.PY_START, py_start)
        mon.set_events(self.TOOL, mon.events.PY_START)
        self.on = True

    def stop(self):
        if self.on:
            mon = sys.monitoring
            mon.set_events(self.TOOL, 0)
            mon.register_callback(self.TOOL, mon.events.PY_START, None)
            mon.free_tool_id(self.TOOL)
            self.on = False

    def reached(self):
        return sorted(self.hit)
