import argparse
import os
import sys

from . import runner


def main():
    ap = argparse.ArgumentParser(prog='check')
    ap.add_argument('prop')
    ap.add_argument('--tier', default=os.environ.get('VERIF_TIER', 'quick'), choices=['quick', 'thorough'])
    ap.add_argument('--seed', type=int, default=int(os.environ.get('VERIF_SEED', '0') or 0))
    ap.add_argument('--replay')
    ap.add_argument('--jobs', type=int, default=None)
    a = ap.parse_args()
    sys.exit(runner.main(a.prop.upper(), a.tier, a.seed, a.jobs, a.replay))


if __name__ == '__main__':
    main()
