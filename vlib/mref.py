"""Reference evaluator for the matcher language, written from matchers.md / the property statement (DESIGN 3.3).
Three-valued: True / False / None (= unspecified by the documentation; not compared).

AST (JSON-able):
  matcher  = {'pos': [pattern...], 'neg': [pattern...]}            '*' = pos [ANY], '!' = pos [ANY] neg [ANY]
  pattern  = {'conn': wl|None, 'obj': ospec|None, 'name': wl|None, 'args': arglist|None, 'bare': bool}   (ANY = all None, bare)
  wl       = {'w': 'text*'} | {'pos': [wl...], 'neg': [wl...]}
  ospec    = {'type': 'word*'} | {'id': N, 'gen': G|None, 'at': bool} | {'pos': [ospec...], 'neg': [ospec...]}
  arglist  = {'pos': [item...], 'neg': [item...]}
  item     = {'name': wl|None, 'value': val|None} | {'pos': [item...], 'neg': [item...]}
  val      = {'int': N} | {'float': 'text'} | {'str': 's'} | {'word': 'w*'} | {'nil': True} | {'oid': N, 'gen': G|None}
             | {'pos': [val...], 'neg': [val...]}

Message projection: {'conn': 'A', 'target': [type,id,gen], 'name': str, 'args': [info], 'destroyed': [type,id,gen]|None}
  info = {'name', 'kind', 'value', 'labels', 'nil_type', 'obj'}   (vlib/history.py arg_info; float values decoded)
"""
import re

_wc_cache = {}


def word_match(w, s):
    if s is None:
        return False
    if w == '*':
        return True
    if '*' not in w:
        return w == s
    rx = _wc_cache.get(w)
    if rx is None:
        rx = re.compile('.*'.join(re.escape(p) for p in w.split('*')), re.S)
        _wc_cache[w] = rx
    return rx.fullmatch(s) is not None


def k_and(a, b):
    if a is False or b is False:
        return False
    if a is None or b is None:
        return None
    return True


def k_or(a, b):
    if a is True or b is True:
        return True
    if a is None or b is None:
        return None
    return False


def k_not(a):
    return None if a is None else (not a)


def k_any(it):
    r = False
    for x in it:
        if x is True:
            return True
        if x is None:
            r = None
    return r


def k_all(it):
    r = True
    for x in it:
        if x is False:
            return False
        if x is None:
            r = None
    return r


def lst(node, f):
    """any positive and no negative; an empty positive part means 'anything'"""
    pos = True if not node['pos'] else k_any(f(p) for p in node['pos'])
    neg = k_any(f(n) for n in node['neg'])
    return k_and(pos, k_not(neg))


def wl_match(node, s):
    if node is None:
        return True
    if 'never' in node:
        return False                 # `[!]`: the nothing-matcher as a component
    if 'w' in node:
        return word_match(node['w'], s)
    return lst(node, lambda n: wl_match(n, s))


def ospec_match(node, obj):
    """obj = [type, id, gen]"""
    if node is None:
        return True
    if 'never' in node:
        return False
    if 'type' in node:
        return obj[0] is not None and word_match(node['type'], obj[0])
    if 'id' in node:
        return obj[1] == node['id'] and (node['gen'] is None or obj[2] == node['gen'])
    return lst(node, lambda n: ospec_match(n, obj))


def val_match(node, a):
    k = a['kind']
    if 'never' in node:
        return False
    if 'int' in node:
        if k == 'int':
            return a['value'] == node['int']
        if k in ('float', 'fd', 'obj', 'new'):
            return None              # not in the documentation
        return False
    if 'float' in node:
        if k == 'float':
            return a['value'] == float(node['float'])
        if k == 'int':
            return None
        return False
    if 'str' in node:
        return k == 'str' and a['value'] == node['str']
    if 'word' in node:
        w = node['word']
        if k == 'int':
            return bool(a['labels']) and any(word_match(w, l) for l in a['labels'])
        if k in ('obj', 'new'):
            return a['obj'][0] is not None and word_match(w, a['obj'][0])
        if k == 'nil':
            return a['nil_type'] is not None and word_match(w, a['nil_type'])
        return False
    if 'nil' in node:
        return k == 'nil'
    if 'oid' in node:
        if k in ('obj', 'new'):
            return a['obj'][1] == node['oid'] and (node['gen'] is None or a['obj'][2] == node['gen'])
        return False
    if not node['pos']:
        return None                  # value list with an empty positive part: unspecified
    return lst(node, lambda n: val_match(n, a))


def item_match(node, a):
    if 'pos' in node:
        return lst(node, lambda n: item_match(n, a))
    if item_const_true(node):
        return True                  # `*` / `=` / `*=*`: any argument, of any kind
    nm = wl_match(node['name'], a['name'] if a['name'] is not None else '')
    if nm is False:
        return False
    v = True if node['value'] is None else val_match(node['value'], a)
    return k_and(nm, v)


def item_const_true(node):
    """constant-true argument items are finding K1: unspecified"""
    if 'pos' in node:
        # exclusions that can never hold (`! [!]`) do not make the item less constant (thorough tier, seed 21)
        return any(item_const_true(p) for p in node['pos']) and all(item_const_false(q) for q in node['neg']) or (not node['pos'])
    n = node['name']
    name_any = n is None or n.get('w') == '*'
    v = node['value']
    val_any = v is None or v.get('word') == '*'
    if v is not None and 'never' in v:
        return False
    return name_any and val_any


def word_const_false(n):
    if n is None:
        return False
    if 'never' in n:
        return True
    if 'pos' in n:
        return (bool(n['pos']) and all(word_const_false(p) for p in n['pos'])) or any(q.get('w') == '*' for q in n['neg'])
    return False


def item_const_false(node):
    if 'pos' in node:
        return (bool(node['pos']) and all(item_const_false(p) for p in node['pos'])) or any(item_const_true(q) for q in node['neg'])
    v = node['value']
    return word_const_false(node['name']) or (v is not None and 'never' in v)


def args_match(node, args):
    """every positive item satisfied by some argument, no negative item satisfied by any argument.  A constant-true
    item (finding K1: `*`, `=`, `[*]`) is satisfied by any argument; whether it needs one when there is none is the open
    question, so it is unspecified only for an empty argument list."""
    if node is None:
        return True

    def sat(it):
        if item_const_true(it):
            return True if args else None
        return k_any(item_match(it, a) for a in args)
    pos = k_all(sat(it) for it in node['pos'])
    neg = k_any(sat(it) for it in node['neg'])
    return k_and(pos, k_not(neg))


def has_const_true_item(node):
    if node is None:
        return False
    return any(item_const_true(i) for i in node['pos'] + node['neg'])


def objarg_match(ospec, a):
    """bare object mentioned as an argument"""
    if a['kind'] in ('obj', 'new'):
        return ospec_match(ospec, a['obj'])
    if a['kind'] == 'nil':
        return ospec_match(ospec, [a['nil_type'], 0, 0])
    return False


def pattern_match(p, m):
    c = wl_match(p['conn'], m['conn'])
    if c is False:
        return False
    real = k_and(ospec_match(p['obj'], m['target']), k_and(wl_match(p['name'], m['name']), args_match(p['args'], m['args'])))
    pseudo = False
    noargs = args_match(p['args'], [])
    if wl_match(p['name'], 'new') is not False and noargs is not False:
        for a in m['args']:
            if a['kind'] == 'new':
                pseudo = k_or(pseudo, k_and(ospec_match(p['obj'], a['obj']), k_and(wl_match(p['name'], 'new'), noargs)))
    if m['destroyed'] is not None and wl_match(p['name'], 'destroyed') is not False and noargs is not False:
        pseudo = k_or(pseudo, k_and(ospec_match(p['obj'], m['destroyed']), k_and(wl_match(p['name'], 'destroyed'), noargs)))
    r = k_or(real, pseudo)
    if p.get('bare'):
        r = k_or(r, k_any(objarg_match(p['obj'], a) for a in m['args']))
    return k_and(c, r)


def matcher_match(mt, m):
    # a connection prefix on an earlier pattern of a comma list followed by a pattern without one: the README reads it
    # as applying to the whole list, the tool (and matchers.md's grammar) per pattern -> unspecified
    allp = mt['pos'] + mt['neg']
    if len(allp) > 1:
        seen = False
        for p in allp:
            if p['conn'] is not None:
                seen = True
            elif seen:
                return None
    pos = True if not mt['pos'] else k_any(pattern_match(p, m) for p in mt['pos'])
    neg = k_any(pattern_match(p, m) for p in mt['neg'])
    return k_and(pos, k_not(neg))
