# Runs INSIDE real gdb (gdb -nx -batch -x vlib/gdbdrv.py --args build/fake_libwayland script printout).
# Loads the UNMODIFIED wayland-debug plugin exactly as backends/gdb_plugin/runner.run_gdb arranges it
# (sys.argv = [...]; exec(open(main.py).read())), observes it at its boundary (extract results, gdb.write, gdb.execute,
# stop/exit events) and drives the debugger from a plan keyed by the inferior's event counter g_seq.
import json
import os
import sys
import gdb

plan = json.load(open(os.environ['VERIF_GDBDRV_PLAN']))
sys.path.insert(0, plan['repo'])
_log = open(plan['log'], 'w')


def emit(obj):
    _log.write(json.dumps(obj, default=repr) + '\n')
    _log.flush()


def seq():
    try:
        return int(gdb.parse_and_eval('g_seq'))
    except gdb.error:
        return -1


for c in ('set confirm off', 'set pagination off', 'set print thread-events off', 'set width 0', 'set debuginfod enabled off'):
    try:
        gdb.execute(c)
    except gdb.error:
        pass

orig_execute = gdb.execute
orig_write = gdb.write


def my_write(string, stream=gdb.STDOUT):
    emit({'t': 'write', 'seq': seq(), 'text': string})
    return orig_write(string, stream)


def my_execute(command, from_tty=False, to_string=False):
    emit({'t': 'execute', 'seq': seq(), 'cmd': command})
    return orig_execute(command, from_tty, to_string)


gdb.write = my_write
gdb.execute = my_execute

import backends.gdb_plugin.extract as extract      # noqa: E402
from core import wl                                 # noqa: E402


def describe_arg(a):
    A = wl.Arg
    if isinstance(a, A.Int):
        return ['int', a.value]
    if isinstance(a, A.Float):
        return ['float', a.value]
    if isinstance(a, A.String):
        return ['str', a.value]
    if isinstance(a, A.Null):
        return ['nil', a.type]
    if isinstance(a, A.Object):
        return ['new' if a.is_new else 'obj', [a.obj.type, a.obj.id]]
    if isinstance(a, A.Fd):
        return ['fd', a.value]
    if isinstance(a, A.Array):
        return ['array', None if a.values is None else [v.value if isinstance(v, A.Int) else repr(v) for v in a.values]]
    return ['other', repr(a)]


def wrap(fn):
    orig = getattr(extract, fn)

    def f():
        s = seq()
        try:
            cid, msg = orig()
        except BaseException as e:
            emit({'t': 'extract-exception', 'seq': s, 'fn': fn, 'exc': '%s: %r' % (type(e).__name__, e)})
            raise
        emit({'t': 'extract', 'seq': s, 'fn': fn, 'conn': cid, 'name': msg.name, 'sent': msg.sent, 'target': [msg.obj.type, msg.obj.id],
              'args': [describe_arg(a) for a in msg.args], 'thread': gdb.selected_thread().global_num})
        return cid, msg
    setattr(extract, fn, f)


wrap('received_message')
wrap('sent_message')


def on_stop(ev):
    emit({'t': 'stop', 'seq': seq(), 'kind': type(ev).__name__})


def on_exit(ev):
    emit({'t': 'exited', 'code': getattr(ev, 'exit_code', None)})


gdb.events.stop.connect(on_stop)
gdb.events.exited.connect(on_exit)

# ---- load the plugin the way run_gdb does -----------------------------------------------------------------------------
sys.argv = plan['argv']
try:
    exec(open(plan['argv'][0]).read())
    emit({'t': 'loaded'})
except BaseException as e:
    import traceback
    emit({'t': 'load-exception', 'exc': traceback.format_exc()})


def alive():
    inf = gdb.selected_inferior()
    return inf is not None and inf.pid != 0


for c in plan.get('before_run', []):
    try:
        orig_execute(c)
    except gdb.error as e:
        emit({'t': 'gdb-error', 'cmd': c, 'err': str(e)})
try:
    orig_execute('run')
except gdb.error as e:
    emit({'t': 'gdb-error', 'cmd': 'run', 'err': str(e)})
guard = 0
while alive() and guard < 100000:
    guard += 1
    s = seq()
    emit({'t': 'halt', 'seq': s})
    cmds = plan.get('at_halt', {}).get(str(s), plan.get('default_at_halt', ['continue']))
    for c in cmds:
        if not alive():
            break
        emit({'t': 'user', 'seq': s, 'cmd': c})
        try:
            orig_execute(c)
        except gdb.error as e:
            emit({'t': 'gdb-error', 'cmd': c, 'err': str(e)})
        if seq() != s or not alive():
            break          # the inferior went on: the remaining commands belonged to the old halt
    else:
        if alive() and seq() == s:
            # nothing resumed the inferior: go on with gdb's own continue
            try:
                orig_execute('continue')
            except gdb.error as e:
                emit({'t': 'gdb-error', 'cmd': 'continue', 'err': str(e)})
emit({'t': 'done'})
_log.close()
