"""Accumulation model for `filter` / `breakpoint` commands (DESIGN 3.4), over mref ASTs.

state = ('const', bool) | ('acc', must_alts, may_alts, star, excl)
One point of the statement is ambiguous - whether alternatives given before a `*` survive once a later specific
alternative cancels the `*` (the tool drops them): must/may alternative sets, any selection between the two is accepted."""
from . import mref, mgen


NEVER = {'conn': None, 'obj': None, 'name': None, 'args': None, 'never': True}
"""a specific alternative that no message can match (`x(!)`, `[!].y`, ...): it counts as an alternative - a pending `*` stops
applying when it arrives - and selects nothing"""


def is_never(p):
    return bool(p.get('never'))


def is_any(p):
    return not p.get('never') and p['conn'] is None and p['obj'] is None and p['name'] is None and p['args'] is None


def from_matcher(mt):
    if any(is_any(p) for p in mt['neg']):
        return ('const', False)
    star = (not mt['pos']) or any(is_any(p) for p in mt['pos'])
    alts = [p for p in mt['pos'] if not is_any(p)]
    if star and not mt['neg']:
        return ('const', True)
    return ('acc', [] if star else list(alts), list(alts), star, list(mt['neg']))


def join(state, mt):
    if state[0] == 'const':
        return from_matcher(mt)
    _, must, may, star, excl = state
    excl = excl + list(mt['neg'])
    if any(is_any(p) for p in mt['neg']):
        return ('const', False)
    s = any(is_any(p) for p in mt['pos'])
    specific = [p for p in mt['pos'] if not is_any(p)]
    if s:
        star, must, may = True, [], specific + may
    elif specific:
        star, must, may = False, specific + must, specific + may
    if star and not excl:
        return ('const', True)
    return ('acc', must, may, star, excl)


def selected(state, m):
    """-> (lo, hi): the selection must satisfy lo <= tool <= hi; None = unspecified"""
    if state[0] == 'const':
        return state[1], state[1]
    _, must, may, star, excl = state
    ex = mref.k_any(sel_pattern(p, m) for p in excl)
    if ex is True:
        return False, False
    lo = True if star else mref.k_any(sel_pattern(p, m) for p in must)
    hi = True if star else mref.k_any(sel_pattern(p, m) for p in may)
    if ex is None:
        return (False if lo is False else None), (False if hi is False else None)
    return lo, hi


def sel_pattern(p, m):
    if is_never(p):
        return False
    return mref.pattern_match(p, m)


def describe(state):
    r = mgen.Render()
    if state[0] == 'const':
        return '*' if state[1] else '!'
    _, must, may, star, excl = state
    pat = lambda p: '<unsatisfiable>' if is_never(p) else r.pattern(p)
    return 'must[%s] may[%s]%s ! [%s]' % (', '.join(pat(p) for p in must), ', '.join(pat(p) for p in may),
                                         ' star' if star else '', ', '.join(pat(p) for p in excl))
