"""A `gdb` module made of ctypes (tier A for C09 / C10 / C15).

NOT a mock of answers: the harness lays out real C structures with libwayland's ABI in its own address space and
gdb.Value wraps (address, type).  Every dereference is bounds-checked against the regions the harness allocated and
raises gdb.MemoryError otherwise, exactly as gdb does.  The harness plays GDB's run loop (vlib/gdbsim.py)."""
import ctypes
import re
import struct

TYPE_CODE_PTR, TYPE_CODE_ARRAY, TYPE_CODE_STRUCT, TYPE_CODE_UNION, TYPE_CODE_INT, TYPE_CODE_FLT, TYPE_CODE_CHAR, TYPE_CODE_TYPEDEF = 1, 2, 3, 4, 8, 9, 20, 23
COMMAND_DATA = 1
STDOUT, STDERR, STDLOG = 0, 1, 2
VERSION = 'verif-shim'


class error(RuntimeError):
    pass


class MemoryError(error):    # noqa: A001  (gdb.MemoryError)
    pass


class GdbError(Exception):
    pass


# ------------------------------------------------------------------------------------------------- types

class Field:
    def __init__(self, name, type_, offset):
        self.name = name
        self.type = type_
        self.bitpos = offset * 8
        self.bitsize = 0


class Type:
    def __init__(self, code, name, sizeof, target=None, fields=None, signed=True, count=None, tag=None):
        self.code = code
        self.name = name
        self.tag = tag
        self.sizeof = sizeof
        self._target = target
        self._fields = fields or []
        self.signed = signed
        self.count = count
        self._ptr = None

    def pointer(self):
        if self._ptr is None:
            self._ptr = Type(TYPE_CODE_PTR, None, 8, target=self)
        return self._ptr

    def target(self):
        if self._target is None:
            raise error('Type does not have a target.')
        return self._target

    def fields(self):
        return list(self._fields)

    def field(self, name):
        for f in self._fields:
            if f.name == name:
                return f
        raise error('There is no member named %s.' % name)

    def strip_typedefs(self):
        return self

    def unqualified(self):
        return self

    def const(self):
        return self

    def __str__(self):
        if self.code == TYPE_CODE_PTR:
            return str(self._target) + ' *'
        if self.code in (TYPE_CODE_STRUCT, TYPE_CODE_UNION):
            return ('struct ' if self.code == TYPE_CODE_STRUCT else 'union ') + str(self.name)
        if self.code == TYPE_CODE_ARRAY:
            return '%s [%d]' % (self._target, self.count)
        return str(self.name)


def _int(name, size, signed):
    return Type(TYPE_CODE_INT, name, size, signed=signed)


T_CHAR = _int('char', 1, True)
T_INT = _int('int', 4, True)
T_UINT = _int('unsigned int', 4, False)
T_INT32 = _int('int32_t', 4, True)
T_UINT32 = _int('uint32_t', 4, False)
T_FIXED = _int('wl_fixed_t', 4, True)
T_SIZE = _int('size_t', 8, False)
T_LONG = _int('long', 8, True)
T_LONGLONG = _int('long long', 8, True)
T_VOID = Type(TYPE_CODE_INT, 'void', 1)
T_DOUBLE = Type(TYPE_CODE_FLT, 'double', 8)


def _struct(name, members, union=False):
    """members: [(name, type)] laid out with natural alignment"""
    t = Type(TYPE_CODE_UNION if union else TYPE_CODE_STRUCT, name, 0, tag=name)
    off = 0
    maxal = 1
    maxsz = 0
    for n, ty in members:
        al = _align_of(ty)
        maxal = max(maxal, al)
        if union:
            t._fields.append(Field(n, ty, 0))
            maxsz = max(maxsz, ty.sizeof)
        else:
            off = (off + al - 1) // al * al
            t._fields.append(Field(n, ty, off))
            off += ty.sizeof
    size = maxsz if union else off
    t.sizeof = (size + maxal - 1) // maxal * maxal
    return t


def _align_of(ty):
    if ty.code == TYPE_CODE_ARRAY:
        return _align_of(ty.target())
    if ty.code in (TYPE_CODE_STRUCT, TYPE_CODE_UNION):
        return max([_align_of(f.type) for f in ty._fields] or [1])
    return ty.sizeof


def _array(elem, n):
    return Type(TYPE_CODE_ARRAY, None, elem.sizeof * n, target=elem, count=n)


# libwayland's ABI (1.23, LP64)
S_WL_INTERFACE = Type(TYPE_CODE_STRUCT, 'wl_interface', 0, tag='wl_interface')
S_WL_MESSAGE = _struct('wl_message', [('name', T_CHAR.pointer()), ('signature', T_CHAR.pointer()), ('types', S_WL_INTERFACE.pointer().pointer())])
_tmp = _struct('wl_interface', [('name', T_CHAR.pointer()), ('version', T_INT), ('method_count', T_INT), ('methods', S_WL_MESSAGE.pointer()),
                                ('event_count', T_INT), ('events', S_WL_MESSAGE.pointer())])
S_WL_INTERFACE._fields, S_WL_INTERFACE.sizeof = _tmp._fields, _tmp.sizeof
S_WL_OBJECT = _struct('wl_object', [('interface', S_WL_INTERFACE.pointer()), ('implementation', T_VOID.pointer()), ('id', T_UINT32)])
S_WL_ARRAY = _struct('wl_array', [('size', T_SIZE), ('alloc', T_SIZE), ('data', T_VOID.pointer())])
U_WL_ARGUMENT = _struct('wl_argument', [('i', T_INT32), ('u', T_UINT32), ('f', T_FIXED), ('s', T_CHAR.pointer()), ('o', S_WL_OBJECT.pointer()),
                                        ('n', T_UINT32), ('a', S_WL_ARRAY.pointer()), ('h', T_INT32)], union=True)
S_WL_LIST = Type(TYPE_CODE_STRUCT, 'wl_list', 16, tag='wl_list')
S_WL_LIST._fields = [Field('prev', S_WL_LIST.pointer(), 0), Field('next', S_WL_LIST.pointer(), 8)]
S_WL_PROXY = Type(TYPE_CODE_STRUCT, 'wl_proxy', 0, tag='wl_proxy')
S_WL_CLOSURE = _struct('wl_closure', [('count', T_INT), ('message', S_WL_MESSAGE.pointer()), ('opcode', T_UINT32), ('sender_id', T_UINT32),
                                      ('args', _array(U_WL_ARGUMENT, 20)), ('link', S_WL_LIST), ('proxy', S_WL_PROXY.pointer())])
S_WL_CONNECTION = Type(TYPE_CODE_STRUCT, 'wl_connection', 64, tag='wl_connection')
S_WL_CLIENT = _struct('wl_client', [('connection', S_WL_CONNECTION.pointer()), ('source', T_VOID.pointer()), ('display', T_VOID.pointer())])
S_WL_RESOURCE = _struct('wl_resource', [('object', S_WL_OBJECT), ('destroy', T_VOID.pointer()), ('link', S_WL_LIST), ('deprecated_destroy_signal', S_WL_LIST),
                                        ('client', S_WL_CLIENT.pointer()), ('data', T_VOID.pointer())])
_proxy = _struct('wl_proxy', [('object', S_WL_OBJECT), ('display', T_VOID.pointer()), ('queue', T_VOID.pointer()), ('flags', T_UINT32), ('refcount', T_INT),
                              ('user_data', T_VOID.pointer()), ('dispatcher', T_VOID.pointer()), ('version', T_UINT32), ('tag', T_VOID.pointer()), ('queue_link', S_WL_LIST)])
S_WL_PROXY._fields, S_WL_PROXY.sizeof = _proxy._fields, _proxy.sizeof
S_WL_DISPLAY = _struct('wl_display', [('proxy', S_WL_PROXY), ('connection', S_WL_CONNECTION.pointer()), ('last_error', T_INT)])

_TYPES = {'char': T_CHAR, 'int': T_INT, 'unsigned int': T_UINT, 'long': T_LONG, 'double': T_DOUBLE, 'void': T_VOID,
          'struct wl_resource': S_WL_RESOURCE, 'struct wl_object': S_WL_OBJECT, 'struct wl_closure': S_WL_CLOSURE, 'struct wl_message': S_WL_MESSAGE,
          'struct wl_interface': S_WL_INTERFACE, 'struct wl_array': S_WL_ARRAY, 'union wl_argument': U_WL_ARGUMENT, 'struct wl_display': S_WL_DISPLAY,
          'struct wl_client': S_WL_CLIENT, 'struct wl_connection': S_WL_CONNECTION, 'struct wl_proxy': S_WL_PROXY, 'uint32_t': T_UINT32, 'int32_t': T_INT32}


def lookup_type(name, block=None):
    try:
        return _TYPES[name]
    except KeyError:
        raise error('No type named %s.' % name)


# ------------------------------------------------------------------------------------------------- memory

class Memory:
    """regions allocated by the harness; every read is bounds-checked"""

    def __init__(self):
        self.starts = []       # sorted region starts
        self.ends = {}         # start -> end
        self.bufs = {}         # start -> buffer (keeps it alive)
        self.real = {}         # start of a low region -> where its bytes really are
        self.reads = 0

    def alloc(self, size, low=False):
        """low: an address below 4 GiB (the brk heap of a program that is not position independent, a 32-bit inferior):
        the region lives in a buffer elsewhere, every access is translated"""
        import bisect
        size = max(size, 1)
        buf = ctypes.create_string_buffer(size + 16)       # 16 guard bytes that do NOT belong to the region
        addr = ctypes.addressof(buf)
        if low:
            self.low_next = getattr(self, 'low_next', 0x01c3f2a0)
            real, addr = addr, self.low_next
            self.low_next += (size + 16 + 15) // 16 * 16
            self.real[addr] = real
        bisect.insort(self.starts, addr)
        self.ends[addr] = addr + size
        self.bufs[addr] = buf
        return addr

    def _real(self, addr):
        import bisect
        if not self.real:
            return addr
        i = bisect.bisect_right(self.starts, addr) - 1
        if i >= 0 and self.starts[i] in self.real:
            return self.real[self.starts[i]] + (addr - self.starts[i])
        return addr

    def write(self, addr, data):
        self.check(addr, len(data))
        ctypes.memmove(self._real(addr), data, len(data))

    def check(self, addr, size):
        import bisect
        i = bisect.bisect_right(self.starts, addr) - 1
        if i >= 0:
            s = self.starts[i]
            if addr + size <= self.ends[s]:
                return
        raise MemoryError('Cannot access memory at address 0x%x' % addr)

    def read(self, addr, size):
        self.reads += 1
        self.check(addr, size)
        return ctypes.string_at(self._real(addr), size)

    def cstring(self, addr, limit=1 << 20):
        import bisect
        self.reads += 1
        i = bisect.bisect_right(self.starts, addr) - 1
        if i < 0 or addr >= self.ends[self.starts[i]]:
            raise MemoryError('Cannot access memory at address 0x%x' % addr)
        end = self.ends[self.starts[i]]
        raw = ctypes.string_at(self._real(addr), end - addr)
        j = raw.find(b'\x00')
        if j < 0:
            raise MemoryError('Cannot access memory at address 0x%x' % end)     # ran off the end of the region
        return raw[:j]

    def reset(self):
        self.starts = []
        self.ends = {}
        self.bufs = {}
        self.real = {}


MEM = Memory()


# ------------------------------------------------------------------------------------------------- values

class Value:
    """either an lvalue (address + type) or an immediate (python number + type)"""

    def __init__(self, type_, address=None, imm=None):
        self.type = type_
        self._addr = address
        self._imm = imm

    # -- reading ----------------------------------------------------------------------------------------
    def _scalar(self):
        # as in gdb: an lvalue is fetched lazily, at its first use, and keeps those contents from then on - a Value kept
        # across stops does not follow the inferior's memory
        if getattr(self, '_fetched', None) is None:
            self._fetched = (self._scalar_now(),)
        return self._fetched[0]

    def _scalar_now(self):
        t = self.type
        if self._imm is not None:
            return self._imm
        if t.code == TYPE_CODE_PTR:
            return struct.unpack('<Q', MEM.read(self._addr, 8))[0]
        if t.code in (TYPE_CODE_INT, TYPE_CODE_CHAR):
            raw = MEM.read(self._addr, t.sizeof)
            return int.from_bytes(raw, 'little', signed=t.signed)
        if t.code == TYPE_CODE_FLT:
            return struct.unpack('<d', MEM.read(self._addr, 8))[0]
        if t.code == TYPE_CODE_ARRAY:
            return self._addr        # arrays decay to their address
        raise error('value of type %s is not a scalar' % t)

    def __int__(self):
        v = self._scalar()
        return int(v)

    def __index__(self):
        return int(self)

    def __float__(self):
        return float(self._scalar())

    def __str__(self):
        t = self.type
        if t.code == TYPE_CODE_PTR:
            return '0x%x' % self._scalar()
        if t.code in (TYPE_CODE_INT, TYPE_CODE_CHAR, TYPE_CODE_FLT):
            return str(self._scalar())
        return '{...}'

    def __bool__(self):
        return self._scalar() != 0

    def __eq__(self, other):
        try:
            return int(self) == int(other)
        except Exception:
            return NotImplemented

    def __hash__(self):
        return hash((self._addr, self._imm))

    @property
    def address(self):
        if self._addr is None:
            return None
        return Value(self.type.pointer(), imm=self._addr)

    # -- navigation -------------------------------------------------------------------------------------
    def cast(self, type_):
        t = self.type
        if t.code in (TYPE_CODE_PTR, TYPE_CODE_INT, TYPE_CODE_CHAR, TYPE_CODE_ARRAY) and type_.code in (TYPE_CODE_PTR, TYPE_CODE_INT, TYPE_CODE_CHAR):
            v = self._scalar()
            if type_.code != TYPE_CODE_PTR:
                bits = type_.sizeof * 8
                v &= (1 << bits) - 1
                if type_.signed and v >= 1 << (bits - 1):
                    v -= 1 << bits
            else:
                v &= (1 << 64) - 1
            return Value(type_, imm=v)
        if t.code == TYPE_CODE_PTR and type_.code == TYPE_CODE_FLT and type_.sizeof == 8:
            # gdb: pointer -> double of equal size is a reinterpretation of the bits (value_cast falls through to the
            # same-length case), which is what extract.py's (double)(void*) trick relies on
            return Value(type_, imm=struct.unpack('<d', struct.pack('<Q', self._scalar() & ((1 << 64) - 1)))[0])
        if t.code in (TYPE_CODE_INT, TYPE_CODE_CHAR) and type_.code == TYPE_CODE_FLT:
            return Value(type_, imm=float(self._scalar()))
        if t.code in (TYPE_CODE_STRUCT, TYPE_CODE_UNION) and type_.code == t.code:
            return Value(type_, address=self._addr)
        raise error('Invalid cast from %s to %s.' % (t, type_))

    def dereference(self):
        if self.type.code != TYPE_CODE_PTR:
            raise error('Attempt to take contents of a non-pointer value.')
        target = self.type.target()
        addr = self._scalar()
        MEM.check(addr, max(1, target.sizeof if target.code not in (TYPE_CODE_STRUCT, TYPE_CODE_UNION, TYPE_CODE_ARRAY) else 1))
        return Value(target, address=addr)

    def referenced_value(self):
        return self.dereference()

    def __add__(self, n):
        if self.type.code != TYPE_CODE_PTR:
            return Value(self.type, imm=self._scalar() + int(n))
        return Value(self.type, imm=self._scalar() + int(n) * max(1, self.type.target().sizeof))

    def __sub__(self, n):
        if isinstance(n, Value) and n.type.code == TYPE_CODE_FLT or self.type.code == TYPE_CODE_FLT:
            return Value(T_DOUBLE, imm=float(self) - float(n))
        return self.__add__(-int(n))

    def __getitem__(self, key):
        t = self.type
        if isinstance(key, str):
            v = self
            if t.code == TYPE_CODE_PTR:
                v = self.dereference()       # gdb: ptr['field'] looks through the pointer
                t = v.type
            if t.code not in (TYPE_CODE_STRUCT, TYPE_CODE_UNION):
                raise error('Type %s is not a structure or union type.' % t)
            f = t.field(key)
            return Value(f.type, address=v._addr + f.bitpos // 8)
        if isinstance(key, Field):
            return self[key.name]
        i = int(key)
        if t.code == TYPE_CODE_ARRAY:
            elem = t.target()
            return Value(elem, address=self._addr + i * elem.sizeof)
        if t.code == TYPE_CODE_PTR:
            elem = t.target()
            return Value(elem, address=self._scalar() + i * max(1, elem.sizeof))
        raise error('Cannot subscript requested type.')

    def string(self, encoding='utf-8', errors='strict', length=-1):
        t = self.type
        if t.code == TYPE_CODE_PTR:
            addr = self._scalar()
        elif t.code == TYPE_CODE_ARRAY:
            addr = self._addr
        else:
            raise error('Trying to read string with inappropriate type `%s\'.' % t)
        if addr == 0:
            raise MemoryError('Cannot access memory at address 0x0')
        return MEM.cstring(addr).decode(encoding, errors)


# ------------------------------------------------------------------------------------------------- expression evaluation

_FIXED_EXPR = re.compile(r'^\(double\)\(void\*\)\(\(\(1023LL \+ 44LL\) << 52\) \+ \(1LL << 51\) \+ (-?\d+)\) - \(3LL << 43\)$')
EVALS = []


def parse_and_eval(expr):
    """the one expression extract.py uses: wl_fixed_to_double spelled for gdb (pointer -> double = bit reinterpretation)"""
    EVALS.append(expr)
    m = _FIXED_EXPR.match(expr.strip())
    if m:
        i = ((1023 + 44) << 52) + (1 << 51) + int(m.group(1))
        d = struct.unpack('<d', struct.pack('<Q', i & ((1 << 64) - 1)))[0]
        return Value(T_DOUBLE, imm=d - float(3 << 43))
    m = re.match(r'^-?\d+$', expr.strip())
    if m:
        return Value(T_LONG, imm=int(expr))
    raise error('the gdb shim cannot evaluate %r' % expr)


# ------------------------------------------------------------------------------------------------- frames, threads, run loop state

class Frame:
    def __init__(self, name, variables, older=None):
        self._name = name
        self._vars = variables
        self._older = older

    def name(self):
        return self._name

    def function(self):
        return self._name

    def older(self):
        return self._older

    def read_var(self, name):
        try:
            return self._vars[name]
        except KeyError:
            raise ValueError('Variable \'%s\' not found.' % name)

    def is_valid(self):
        return True


class Thread:
    def __init__(self, num):
        self.global_num = num
        self.num = num
        self.ptid = (1, num, 0)

    def is_valid(self):
        return True


class State:
    def __init__(self):
        self.frame = None
        self.thread = Thread(1)
        self.breakpoints = []
        self.commands = {}
        self.executed = []
        self.written = []


STATE = State()


def selected_frame():
    if STATE.frame is None:
        raise error('No frame is currently selected.')
    return STATE.frame


def selected_thread():
    return STATE.thread


def breakpoints():
    return tuple(STATE.breakpoints)


def execute(command, from_tty=False, to_string=False):
    STATE.executed.append(command)
    return '' if to_string else None


def write(string, stream=STDOUT):
    STATE.written.append((stream, string))


def flush(stream=STDOUT):
    pass


class Breakpoint:
    def __init__(self, spec, type=None, wp_class=None, internal=False, temporary=False, qualified=False):
        self.location = spec
        self.spec = spec
        self.internal = internal
        self.enabled = True
        self.hit_count = 0
        STATE.breakpoints.append(self)

    def stop(self):
        return True

    def is_valid(self):
        return True

    def delete(self):
        if self in STATE.breakpoints:
            STATE.breakpoints.remove(self)


class FinishBreakpoint(Breakpoint):
    pass


class Command:
    def __init__(self, name, command_class=COMMAND_DATA, completer_class=None, prefix=False):
        self.name = name
        STATE.commands[name] = self

    def invoke(self, arg, from_tty):
        raise NotImplementedError()

    def dont_repeat(self):
        pass


class _Events:
    class _Registry:
        def __init__(self):
            self.handlers = []

        def connect(self, f):
            self.handlers.append(f)

        def disconnect(self, f):
            self.handlers.remove(f)

    def __init__(self):
        self.stop = self._Registry()
        self.exited = self._Registry()
        self.cont = self._Registry()


events = _Events()


def reset():
    """fresh debugger session (breakpoints, commands, log) - memory regions are kept until MEM.reset()"""
    global STATE
    STATE = State()
    del EVALS[:]
