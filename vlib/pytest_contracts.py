"""pytest plugin: run the repository's OWN test suite with the harness's invariant hooks installed (calibration: a hook
that fires there is either too strict or a defect the tests do not assert).  Usage: tools/calibrate.sh"""
import sys


def pytest_configure(config):
    sys.path.insert(0, '/verif')
    from vlib import env, contracts
    env.setup()
    contracts.install()


def pytest_runtest_teardown(item, nextitem):
    from vlib import contracts
    v = contracts.drain()
    if v:
        item.config._verif_viol = getattr(item.config, '_verif_viol', []) + [(item.nodeid, v)]


def pytest_sessionfinish(session, exitstatus):
    from vlib import contracts
    tr = session.config.pluginmanager.get_plugin('terminalreporter')
    viol = getattr(session.config, '_verif_viol', [])
    msg = 'verif contracts: evaluations %r; tests in which a hook fired: %d' % (contracts.COUNTS, len(viol))
    if tr:
        tr.write_line(msg)
        for nodeid, v in viol[:20]:
            tr.write_line('  %s: %r' % (nodeid, v[:3]))
    else:
        print(msg)
