"""Line-by-line Python port of libwayland's wl_closure_print, in its two dialects, plus the
closure generator.  A closure is a JSON-able dict:

  {'iface': str, 'id': int, 'name': str, 'send': bool, 'time_us': int,
   'queue': str|None, 'conn': int|None,
   'args': [ {'k':'i','v':int} | {'k':'u','v':int} | {'k':'f','v':int(raw 24.8)} |
             {'k':'s','v':str|None} | {'k':'o','v':None|{'iface':str,'id':int}} |
             {'k':'n','v':int,'iface':str|None} | {'k':'a','data':[int,...]} | {'k':'h','v':int} ]}

dialect = {'new': bool, 'comma': bool}
  old  (<= 1.19): "[%10.3f] %s%s@%u.%s("   fixed "%f"  array "array"   (locale decimal comma possible)
  new  (>= 1.20): "[%7u.%03u] " ["{%s} "] ["<%d> "] "%s%s#%u.%s("  fixed "%d.%08d"  array "array[%zu]"
The "<%d> " tag is resources/libwayland-patches/0003.  (The old dialect never had queue names; the tag
patch exists for the old dialect too in the project's history: "[..] <N>  -> x@1.y()" is accepted by the
tool's grammar, so old+tag is generated as well.)
"""
import string

INT32_MIN, INT32_MAX, UINT32_MAX = -2**31, 2**31 - 1, 2**32 - 1


def c_div(a, b):
    q = abs(a) // abs(b)
    return q if (a >= 0) == (b >= 0) else -q


def c_mod(a, b):
    return a - b * c_div(a, b)


def fixed_to_double(f):
    return f / 256.0


def render_fixed(f, dialect):
    if dialect['new']:
        if f >= 0:
            return '%d.%08d' % (c_div(f, 256), 390625 * c_mod(f, 256))
        return '-%d.%08d' % (c_div(f, -256), -390625 * c_mod(f, 256))
    s = '%f' % fixed_to_double(f)
    return s.replace('.', ',') if dialect['comma'] else s


def render_time(time_us, dialect):
    if dialect['new']:
        return '[%7u.%03u] ' % (time_us // 1000, time_us % 1000)
    s = '[%10.3f] ' % (time_us / 1000.0)
    return s.replace('.', ',') if dialect['comma'] else s


def render_arg(a, dialect):
    at = '#' if dialect['new'] else '@'
    k = a['k']
    if k == 'u':
        return '%u' % a['v']
    if k == 'i':
        return '%d' % a['v']
    if k == 'f':
        return render_fixed(a['v'], dialect)
    if k == 's':
        return 'nil' if a['v'] is None else '"%s"' % a['v']
    if k == 'o':
        return 'nil' if a['v'] is None else '%s%s%u' % (a['v']['iface'], at, a['v']['id'])
    if k == 'n':
        return 'new id %s%s%s' % (a['iface'] if a.get('iface') else '[unknown]', at,
                                  ('%u' % a['v']) if a['v'] != 0 else 'nil')
    if k == 'a':
        return ('array[%d]' % (4 * len(a['data']) + a.get('extra_bytes', 0))) if dialect['new'] else 'array'
    if k == 'h':
        return 'fd %d' % a['v']
    raise ValueError(k)


def render(c, dialect):
    at = '#' if dialect['new'] else '@'
    s = render_time(c['time_us'], dialect)
    if dialect['new'] and c.get('queue') is not None:
        s += '{%s} ' % c['queue']
    if c.get('conn') is not None:
        s += '<%s> ' % (c['conn'],)
    s += '%s%s%s%u.%s(' % (' -> ' if c['send'] else '', c['iface'], at, c['id'], c['name'])
    s += ', '.join(render_arg(a, dialect) for a in c['args'])
    return s + ')'


def denoted_time_ms_text(c, dialect):
    """the millisecond text inside the brackets (for Decimal arithmetic in C16)"""
    return render_time(c['time_us'], dialect).strip()[1:-1].strip()


def expected_arg(a, dialect):
    """What the line denotes for this argument, as (kind, value)."""
    k = a['k']
    if k in 'iu':
        return ('int', a['v'])
    if k == 'f':
        if dialect['new']:
            return ('float', fixed_to_double(a['v']))
        return ('float', float(render_fixed(a['v'], dialect).replace(',', '.')))
    if k == 's':
        return ('nil', None) if a['v'] is None else ('str', a['v'])
    if k == 'o':
        return ('nil', None) if a['v'] is None else ('obj', (a['v']['iface'], a['v']['id']))
    if k == 'n':
        return ('new', (a.get('iface') or None, a['v']))
    if k == 'a':
        return ('array', None)
    if k == 'h':
        return ('fd', a['v'])
    raise ValueError(k)


# ---------------------------------------------------------------------------------------------
# generator

KINDS = 'iufsonah'
WORD_CH = string.ascii_lowercase + string.digits + '_'
IFACES = ['wl_surface', 'wl_foo', 'xdg_toplevel', 'zwp_linux_dmabuf_v1', 'a', 'X9', '_x', 'wl_display', 'wl_registry',
          'wl_callback', 'nil', 'array', 'fd', 'new', 'id', '1x', '77']
NAMES = ['bar', 'commit', 'delete_id', 'bind', 'global', 'x', 'set_title', 'a1', '_', 'new', 'destroyed', 'nil', '0']
QUEUES = ['Default Queue', 'Display Queue', 'my queue', 'q', '', 'a{b', '[1.0]', '<3>', 'q#1.x(', ' -> ', 'Ünï']

STR_PLAIN = ['', 'hello', 'x', 'Hello World', 'org.gnome.gedit', 'wl_compositor']
STR_PUNCT = ['a, b', ', ', 'x, ', ', x', ')', '(', ')(', '()', 'f(x, y)', ']', '[', '[]', '[a, b]', '}', '{', '{q}', ' ', '  ',
             ' lead', 'trail ', 'a  b', '),', ', )', '), (', 'a)', '(b', "it's", "'", "''", '#', '@', 'a@b', '<', '>', '<1>',
             '->', ' -> ', '!', '=', '~', '*', '.', '..', 'a.b(c)', 'tab\there']
STR_LOOKALIKE = ['nil', 'array', 'array[4]', 'fd 3', 'new id x@3', 'new id [unknown]#4', '-7', '0', '42', '1.5', '1,5',
                 '-0.50000000', '1e5', 'wl_a@3', 'wl_a#3', 'x@1.y()', 'inf', 'nan',
                 # what printf / other languages print for "nothing": still strings
                 '(null)', 'null', '(nil)', 'NULL', 'None', '<null>', 'nil ', ' nil', 'true', 'false', '0x10', '#5', '@5', 'fd', 'new id', 'array[', '...', '[...]']
STR_FRAGMENT = ['[1.0]  -> a@1.b(', '}  -> c@2.d(', '} x#2.y(', '[12.345] a@1.b()', '[1.000] {q} <2>  -> a#1.b(1)',
                ' [5.0] z@9.q(', '<7> x#1.y(', '{z} <7>  -> x#1.y(', ']  -> a@1.b(']
STR_UNI = ['żółć', '日本語', 'naïve café', '→ ↲', '───┤', 'emoji 😀', 'Ω, ω', ' nbsp',
           # not in the Unicode normal forms the others are in: decomposed accents, conjoining jamo, singletons, compatibility characters
           'Cafe\u0301', '\u1112\u1161\u11ab', '\u2126hm', '\u212bngstro\u0308m', 'x\u00b2 \u00bd \ufb01n', '\uff21\uff22', 'a\u0323\u0302', '\u0130stanbul \u0131']


def gen_string(rng, classes=None):
    r = rng.random()
    if r < 0.06:
        return None
    pools = [STR_PLAIN, STR_PUNCT, STR_LOOKALIKE, STR_FRAGMENT, STR_UNI]
    r = rng.random()
    if r < 0.02:
        # long strings: a message may carry up to ~4 kB on the wire, the printed line is longer than that
        n = rng.choice([255, 256, 1023, 1024, 4000, 4050, 4083, 4090, 4096, 5000, 8191, 8192, 16000, 65500, 65536, 70000, 131073])
        unit = rng.choice(['x', 'ab ', 'f(x), ', 'é', '[1.0] '])
        s = (unit * (n // len(unit) + 1))[:n]
    elif r < 0.75:
        s = rng.choice(rng.choice(pools))
    elif r < 0.9:
        s = ''.join(rng.choice(rng.choice(pools)) for _ in range(rng.randint(2, 4)))
    else:
        alphabet = [chr(c) for c in range(0x20, 0x7f) if chr(c) not in '"\\']
        s = ''.join(rng.choice(alphabet) for _ in range(rng.randint(0, 30)))
    assert '"' not in s and '\\' not in s and '\n' not in s and '\r' not in s
    return s


def gen_int(rng, signed):
    r = rng.random()
    if signed:
        if r < 0.4:
            return rng.choice([0, 1, -1, INT32_MIN, INT32_MAX, 2, -2, 255, 256, -256, 1000000])
        return rng.randint(INT32_MIN, INT32_MAX)
    if r < 0.4:
        return rng.choice([0, 1, UINT32_MAX, 2**31, 2**31 - 1, 0xff000000, 2, 4096])
    return rng.randint(0, UINT32_MAX)


FIXED_INT_PARTS = [0, 1, -1, 255, -255, 8388607, -8388607, -8388608]


def gen_fixed(rng):
    r = rng.random()
    if r < 0.5:
        ip = rng.choice(FIXED_INT_PARTS)
        fr = rng.randint(0, 255)
        v = ip * 256 + fr
        return max(INT32_MIN, min(INT32_MAX, v))
    if r < 0.6:
        return rng.choice([0, 1, -1, 128, -128, 256, -256, INT32_MIN, INT32_MAX, 384, -384])
    return rng.randint(INT32_MIN, INT32_MAX)


def gen_word(rng, pool):
    if rng.random() < 0.7:
        return rng.choice(pool)
    return ''.join(rng.choice(WORD_CH) for _ in range(rng.randint(1, 12)))


def gen_id(rng):
    r = rng.random()
    if r < 0.5:
        return rng.randint(1, 60)
    if r < 0.7:
        return rng.choice([1, 2, 0xff000000, 0xff000001, UINT32_MAX, 0xfeffffff, 2**31])
    return rng.randint(1, UINT32_MAX)


def gen_arg(rng, k):
    if k == 'i':
        return {'k': 'i', 'v': gen_int(rng, True)}
    if k == 'u':
        return {'k': 'u', 'v': gen_int(rng, False)}
    if k == 'f':
        return {'k': 'f', 'v': gen_fixed(rng)}
    if k == 's':
        return {'k': 's', 'v': gen_string(rng)}
    if k == 'o':
        if rng.random() < 0.15:
            return {'k': 'o', 'v': None}
        return {'k': 'o', 'v': {'iface': gen_word(rng, IFACES), 'id': gen_id(rng)}}
    if k == 'n':
        return {'k': 'n', 'v': gen_id(rng), 'iface': None if rng.random() < 0.25 else gen_word(rng, IFACES)}
    if k == 'a':
        r = rng.random()
        if r < 0.8:
            n = rng.choice([0, 0, 1, 2, 3, 5, 8, 40])
        elif r < 0.97:
            n = rng.randint(0, 40)
        else:
            n = rng.choice([255, 256, 257, 258, 511, 512, 513, 1000, 1023, 1024])    # a 4 kB message has room for ~1000 ints
        a = {'k': 'a', 'data': [gen_int(rng, True) for _ in range(n)]}
        if n == 0 and rng.random() < 0.5:
            a['null_data'] = True           # what wl_array_init() leaves behind: size 0, data NULL
        return a
    if k == 'h':
        return {'k': 'h', 'v': rng.choice([0, 1, 2, 3, 17, 1023, 2**31 - 1]) if rng.random() < 0.7 else rng.randint(0, 2**31 - 1)}
    raise ValueError(k)


def gen_kinds(rng, pair_queue):
    """0..20 kinds; pairwise adjacency covering: take pairs from pair_queue first."""
    r = rng.random()
    if r < 0.08:
        n = 0
    elif r < 0.7:
        n = rng.randint(1, 6)
    elif r < 0.95:
        n = rng.randint(7, 19)
    else:
        n = 20
    kinds = []
    while len(kinds) < n:
        if pair_queue and len(kinds) + 2 <= n and rng.random() < 0.6:
            kinds += list(pair_queue.pop())
        else:
            kinds.append(rng.choice(KINDS))
    return kinds[:n]


def all_pairs(rng):
    p = [a + b for a in KINDS for b in KINDS]
    rng.shuffle(p)
    return p


def gen_closure(rng, pair_queue=None, t_us=None):
    kinds = gen_kinds(rng, pair_queue)
    return {
        'iface': gen_word(rng, IFACES), 'id': gen_id(rng), 'name': gen_word(rng, NAMES),
        'send': rng.random() < 0.5,
        'time_us': t_us if t_us is not None else rng.choice([0, 1, 999, 1000, 123456789, 2**32 * 1000 - 1, rng.randint(0, 4 * 10**12)]),
        'queue': (rng.choice(QUEUES) if rng.random() < 0.5 else None),
        'conn': (rng.choice([0, 1, 2, 7, 12, 123456]) if rng.random() < 0.4 else None),
        'args': [gen_arg(rng, k) for k in kinds],
    }


def gen_dialect(rng):
    new = rng.random() < 0.55
    return {'new': new, 'comma': (not new) and rng.random() < 0.3}
