"""The real pipeline, built exactly as main.main does, observed at its boundary:
input object (readline), the two output streams, the UIState listener, the command sink.
One totally ordered event log on a logical clock (the list index)."""
from . import env, outline


class Session:
    def __init__(self, show_unprocessed=True, color=False, filter_text=None, stop_text=None, verbose=False, matchers=None):
        env.setup()
        env.load_protocols()
        env.reset_globals(color)
        from core import matcher, ConnectionManager
        from core.output import Output, stream
        from frontends.tui import Controller
        from interfaces import UIState
        self.matcher = matcher
        self.events = []   # (kind, payload): read / out / err / cmd / ui / eof
        events = self.events

        class RecStream(stream.Base):
            def __init__(self, tag):
                self.tag = tag

            def override_write(self, string):
                events.append((self.tag, string))

        class UIRec(UIState.Listener):
            def pause_requested(self):
                events.append(('ui', 'pause'))

            def resume_requested(self):
                events.append(('ui', 'resume'))

            def quit_requested(self):
                events.append(('ui', 'quit'))

        self.color = color
        self.output = Output(verbose, show_unprocessed, RecStream('out'), RecStream('err'))
        self.cm = ConnectionManager()
        fm = matcher.parse(filter_text).simplify() if filter_text else matcher.always
        sm = matcher.parse(stop_text).simplify() if stop_text else matcher.never
        if matchers is not None:
            fm, sm = matchers         # as main.main() gets them: from frontends.tui.parse_args (-f / -b)
        self.ctl = Controller(self.output, self.cm, fm, sm)
        self.uirec = UIRec()
        self.ctl.add_ui_state_listener(self.uirec)

    # ------------------------------------------------------------------
    def command(self, text):
        self.events.append(('cmd', text))
        self.ctl.process_command(text)

    def prompt(self, text):
        """the command typed at the `wl debug $` prompt of load-from-file / run mode: through the real TerminalUI, wired as main.file_input_main does"""
        from frontends.tui import TerminalUI

        class PromptScriptOver(Exception):
            pass
        if getattr(self, 'tui', None) is None:
            self.tui_queue = []

            def input_func(p, q=self.tui_queue):
                self.events.append(('prompt', p))
                if not q:
                    raise PromptScriptOver()
                return q.pop(0)
            self.tui_exc = PromptScriptOver
            self.tui = TerminalUI(self.ctl, self.ctl, input_func)
        self.events.append(('cmd', text))
        self.tui_queue.append(text)
        try:
            self.tui.run_until_stopped()
        except Exception as e:
            if type(e).__name__ != 'PromptScriptOver':
                raise

    def feed(self, lines, hooks=None, cleanup=True, before_read=None):
        """lines: list of str (each normally ending in '\\n').  hooks: {line_index: [command, ...]} run
        before that line is handed out (index len(lines) = before EOF is reported)."""
        from backends.libwayland_debug_output import parse
        sess = self
        hooks = hooks or {}

        class ScriptedInput:
            def __init__(self):
                self.i = 0
                self.rest = None

            def readline(self, size=-1):
                if self.rest is not None:
                    # the caller limits the line length: hand out the rest of the current line piecewise, as a file would
                    chunk, self.rest = self.rest[:size], self.rest[size:] or None
                    sess.events.append(('read', self.i - 1))
                    return chunk
                i = self.i
                for cmd in hooks.get(i, ()):  # what GDB mode / a user at the prompt does between two lines
                    if callable(cmd):
                        cmd(sess)
                    else:
                        sess.command(cmd)
                if before_read is not None:
                    before_read(sess, i)
                self.i += 1
                if i < len(lines) and lines[i] != '':
                    sess.events.append(('read', i))
                    if size is not None and 0 <= size < len(lines[i]):
                        self.rest = lines[i][size:]
                        return lines[i][:size]
                    return lines[i]
                # (an empty string without newline is not a line: it is how a text stream reports its end)
                sess.events.append(('eof', i))
                return ''

        parser = parse.Parser(self.output, self.cm)
        self.parser = parser
        parser.parse_all(ScriptedInput())
        if cleanup:
            parser.cleanup()
        return parser

    def feed_api(self, lines, ids, reopen=(), before_read=None):
        """the way GDB mode drives the core: ConnectionManager.open_connection / message / close_connection with
        connection ids chosen by the caller.  ids[i] is the id line i arrives on; it is opened with its first line;
        at the indices in `reopen` the id is closed first and opened again (a wl_connection address used again)."""
        from backends.libwayland_debug_output import parse
        opened = {}
        t = 0.0
        for i, (line, cid) in enumerate(zip(lines, ids)):
            if before_read is not None:
                before_read(self, i)
            if i in reopen and cid in opened:
                self.cm.close_connection(t, cid)
                del opened[cid]
            self.events.append(('read', i))
            _, msg = parse.message(line.strip())
            t = msg.timestamp
            if cid not in opened:
                self.cm.open_connection(t, cid, (not msg.sent) if msg.name == 'get_registry' else None)
                opened[cid] = True
            self.cm.message(cid, msg)
        if before_read is not None:
            before_read(self, len(lines))
        self.events.append(('eof', len(lines)))
        for cid in opened:
            self.cm.close_connection(t, cid)

    # ------------------------------------------------------------------
    def out_items(self, since=0):
        """[(event_index, parsed_line)] of the out stream"""
        res = []
        for idx in range(since, len(self.events)):
            k, p = self.events[idx]
            if k == 'out':
                res.append((idx, outline.parse_line(outline.strip_sgr(p))))
        return res

    def stream_text(self, tag):
        return [p for k, p in self.events if k == tag]

    def per_read(self):
        """{line_index: [out/err events produced after read(line_index) and before the next read/eof]}"""
        res = {}
        cur = None
        for k, p in self.events:
            if k == 'read':
                cur = p
                res[cur] = []
            elif k == 'eof':
                cur = 'eof'
                res[cur] = []
            elif k in ('out', 'err') and cur is not None:
                res[cur].append((k, p))
        return res


def conn_by_name(cm, name):
    for c in cm.connections():
        if c.name() == name:
            return c
    return None
