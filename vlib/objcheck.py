"""Shared monitor for C02 (attribution), C03 (lifetimes) and C04 (connection isolation): run a generated stream
through the real pipeline and compare, message by message, what is shown and what is recorded with the ground truth.
Each problem is tagged with the property it refutes."""
import re

from . import streams, outline, contracts, env, history
from .session import Session

LIST_RE = re.compile(r'^( => |    )(\w+) \((client|server|unknown type)(?: to)?(?: (.*?))??(, closed)?\): (open|closed), (\d+) messages$', re.S)


def case_of(st):
    """replayable: the input lines plus, per line, the text the ground truth expects (so that --replay decides again)"""
    exp = []
    for e in st['entries']:
        if e.get('rec') is None:
            exp.append(None)
        else:
            exp.append([history.expected_text(e['rec'], e['side'], st['names'][e['ci']]), streams.exp_floats(e['rec'], st['dialect'])])
    return {'lines': [e['line'] for e in st['entries']], 'k': st['k'], 'strategy': st['strategy'], 'dialect': st['dialect'], 'expected': exp}


def run_stream(ctx, st, want=('C02', 'C03', 'C04'), extra_case=None, session_kwargs=None, hooks=None, api_reuse=False, before_read=None):
    """Feed the stream; return (session, problems) where problems = [(prop, kind, msg, line_index)]."""
    env.setup()
    contracts.install()
    lc = env.log_counter()
    before_logs = dict(lc.counts)
    s = Session(**(session_kwargs or {}))
    entries = st['entries']
    if api_reuse:
        # GDB-mode shape: every connection of the stream arrives under ONE connection id, which is closed and opened
        # again between them (a wl_connection address used again).  The stream must keep its connections apart in
        # time (interleave='first'); the closing happens with the first line of the next connection.
        reopen = set(j for j in range(1, len(entries)) if entries[j]['ci'] != entries[j - 1]['ci'])
        s.feed_api([e['line'] for e in entries], ['reused-id'] * len(entries), reopen=reopen, before_read=before_read)
    else:
        s.feed([e['line'] + '\n' for e in entries], hooks=hooks)
    probs = []

    def P(prop, kind, msg, idx=None):
        if len(probs) < 30:
            probs.append((prop, kind, msg, idx))

    for kind, msg in contracts.drain():
        P('C03' if kind in ('resurrection', 'inv-two-alive', 'inv-alive-not-last') else ('C04' if kind.startswith('inv-conn') or kind.startswith('inv-open') or kind.startswith('inv-listed') else ('C06' if kind == 'inv-controller-record' else 'C02')), kind, msg)

    created_t = streams.stream_created_times(st)
    per = s.per_read()
    t0 = entries[0]['rec']['t_us'] if entries else 0
    announced = {}
    # ---- boundary: the lines shown ------------------------------------------------------------------
    for idx, e in enumerate(entries):
        outs = [outline.strip_sgr(p) for k, p in per.get(idx, []) if k == 'out']
        name = st['names'][e['ci']]
        items = [outline.parse_line(t) for t in outs]
        notices = [it for it in items if it['kind'] == 'notice']
        msgs = [it for it in items if it['kind'] == 'msg']
        others = [it for it in items if it['kind'] not in ('notice', 'msg', 'sep')]
        if e['ci'] not in announced:
            announced[e['ci']] = idx
            role = streams.role_of(st, e['ci'])
            if len(notices) != 1 or notices[0]['what'] != 'New' or notices[0]['conn'] != name or notices[0]['role'] != role:
                P('C04', 'notice-new', 'first message of connection %s (role %s): notices %r' % (name, role, [n['text'] for n in notices]), idx)
            elif outs and outline.parse_line(outs[0])['kind'] != 'notice':
                P('C04', 'notice-order', 'New notice after the first message of %s' % name, idx)
        elif notices:
            P('C04', 'notice-extra', 'unexpected notice %r' % notices[0]['text'], idx)
        if others:
            P('C02', 'line-not-decoded', 'well-formed line produced %r' % others[0]['text'][:200], idx)
            continue
        if len(msgs) != 1:
            P('C02', 'line-count', 'expected one message line, got %d for %r' % (len(msgs), e['line'][:200]), idx)
            continue
        exp = history.expected_text(e['rec'], e['side'], name)
        prob, time_s, life = streams.compare_line(msgs[0]['text'], exp, streams.exp_floats(e['rec'], st['dialect']))
        if prob:
            it = msgs[0]
            # attribute the difference: connection prefix (C04), destroyed annotation (C03), anything else (C02)
            gt = e['rec']['gt']
            if it['conn'] != name:
                P('C04', 'wrong-connection', 'line of connection %s shown as %r: %r' % (name, it['conn'], it['text'][:200]), idx)
            else:
                want_d = gt['destroyed']
                got_d = it['destroyed']
                d_ok = (want_d is None and got_d is None) or (
                    want_d is not None and got_d is not None and got_d['resolved'] and
                    [got_d['type'], got_d['id'], got_d['gen']] == [want_d[0], want_d[1], history.letters(want_d[2])])
                if not d_ok:
                    P('C03', 'destroyed-annotation', 'expected %r, shown %r' % (exp, it['text'][:300]), idx)
                elif want_d is not None and streams.compare_line(msgs[0]['text'], exp.replace(' after LIFE', ''), streams.exp_floats(e['rec'], st['dialect']))[0] is None:
                    # everything as expected except that the lifespan is not there
                    P('C03', 'lifespan-missing', 'no lifespan on %r' % msgs[0]['text'][:200], idx)
                else:
                    P('C02', 'attribution', '%s: expected %r, shown %r' % (prob, exp, it['text'][:300]), idx)
            continue
        # lifespan arithmetic (C03): destroying time minus creating time, from the log text
        if e['rec']['gt']['destroyed'] is not None:
            d = e['rec']['gt']['destroyed']
            ct = created_t.get((e['ci'], d[1], d[2]))
            if life is None:
                P('C03', 'lifespan-missing', 'no lifespan on %r' % msgs[0]['text'][:200], idx)
            elif ct is not None and not streams.within_one_unit(life, e['rec']['t_us'] - ct):
                P('C03', 'lifespan', 'lifespan %ss shown, log says %d us (created %d, destroyed %d): %r' % (
                    life, e['rec']['t_us'] - ct, ct, e['rec']['t_us'], msgs[0]['text'][:200]), idx)
        if not streams.within_one_unit(time_s, e['rec']['t_us'] - t0):
            P('C16', 'time-column', 'time %s shown for log offset %d us' % (time_s, e['rec']['t_us'] - t0), idx)
    # ---- closed notices at EOF -------------------------------------------------------------------------
    eof = [outline.parse_line(outline.strip_sgr(p)) for k, p in per.get('eof', []) if k == 'out']
    closed = sorted(it['conn'] for it in eof if it['kind'] == 'notice' and it['what'] == 'Closed')
    if closed != sorted(st['names'].values()) or len(eof) != len(closed):
        P('C04', 'notice-closed', 'at EOF expected one Closed notice for each of %r, got %r' % (
            sorted(st['names'].values()), [it['text'] for it in eof][:10]))
    # ---- recorded state: Connection.messages() and the object table -------------------------------------
    conns = {c.name(): c for c in s.cm.connections()}
    if sorted(conns) != sorted(st['names'].values()) or len(s.cm.connections()) != len(st['names']):
        P('C04', 'connection-set', 'connections %r, expected %r' % ([c.name() for c in s.cm.connections()], sorted(st['names'].values())))
    for ci, name in st['names'].items():
        c = conns.get(name)
        if c is None:
            continue
        mine = [e for e in entries if e['ci'] == ci]
        rec_msgs = c.messages()
        if len(rec_msgs) != len(mine):
            P('C04', 'message-count', 'connection %s recorded %d messages, its history has %d' % (name, len(rec_msgs), len(mine)))
            continue
        role = streams.role_of(st, ci)
        got_role = {True: 'server', False: 'client', None: 'unknown type'}[c.is_server()]
        if got_role != role:
            P('C04', 'role', 'connection %s role %s, expected %s' % (name, got_role, role))
        for e, m in zip(mine, rec_msgs):
            gt = e['rec']['gt']
            tgt = [m.obj.type, m.obj.id, m.obj.generation]
            if tgt != gt['target'] or m.obj.connection is not c:
                P('C02', 'recorded-target', 'message %s.%s recorded on %r, ground truth %r' % (e['rec']['iface'], e['rec']['name'], tgt, gt['target']))
                break
            objs = [[i, 'new' if a.is_new else 'obj', a.obj.type, a.obj.id, a.obj.generation]
                    for i, a in enumerate(m.args) if hasattr(a, 'obj') and hasattr(a, 'is_new')]
            if objs != gt['objs']:
                P('C02', 'recorded-args', '%s.%s object arguments %r, ground truth %r' % (e['rec']['iface'], e['rec']['name'], objs, gt['objs']))
                break
            d = m.destroyed_obj
            dd = None if d is None else [d.type, d.id, d.generation]
            if dd != gt['destroyed']:
                P('C03', 'recorded-destroyed', '%s.%s destroyed %r, ground truth %r' % (e['rec']['iface'], e['rec']['name'], dd, gt['destroyed']))
                break
        # final alive set and table shape
        sim = st['sims'][ci]
        want_alive = sorted([o.id, o.gen] for o in sim.live())
        got_alive = sorted([ob.id, ob.generation] for lst in c.db.values() for ob in lst if ob.alive)
        if want_alive != got_alive:
            P('C03', 'alive-set', 'connection %s alive set differs: only in tool %r, only in model %r' % (
                name, [x for x in got_alive if x not in want_alive][:6], [x for x in want_alive if x not in got_alive][:6]))
        want_shape = {i: [o.type for o in lst] for i, lst in sim.db.items()}
        got_shape = {i: [o.type for o in lst] for i, lst in c.db.items()}
        if want_shape != got_shape:
            diff = [i for i in set(want_shape) | set(got_shape) if want_shape.get(i) != got_shape.get(i)][:5]
            P('C02', 'table-shape', 'connection %s object table differs at ids %r: tool %r model %r' % (
                name, diff, [got_shape.get(i) for i in diff], [want_shape.get(i) for i in diff]))
        # lifetimes recorded on objects (C03): destroy_time - create_time
        for i, lst in c.db.items():
            for ob in lst:
                if st.get('monotonic', True) and not ob.alive and ob.lifespan() is not None and ob.lifespan() < -1e-9:
                    P('C03', 'negative-lifespan', '%s@%d gen %d lifespan %r' % (ob.type, ob.id, ob.generation, ob.lifespan()))
    # ---- alive set after every message (C03), via the recorded objects' destroy order: checked online ----
    new_logs = {k: v - before_logs.get(k, 0) for k, v in lc.counts.items() if v - before_logs.get(k, 0)}
    if new_logs:
        ctx.count('tool_log_records', sum(new_logs.values()))   # context only, never a violation by itself
    return s, [p for p in probs if p[0] in want]


def report(ctx, st, probs, extra=None):
    seen = set()
    for prop, kind, msg, idx in probs:
        if kind in seen:
            continue
        seen.add(kind)
        case = case_of(st)
        case['first_bad_line'] = idx
        if extra:
            case.update(extra)
        ctx.violation(kind, msg, case)


def replay_lines(ctx, case, want):
    """re-feed the stored lines and compare every shown line with the stored ground-truth text again"""
    contracts.install()
    s = Session()
    if case.get('api_reuse'):
        cis = case['api_reuse']
        s.feed_api(case['lines'], ['reused-id'] * len(cis), reopen=set(j for j in range(1, len(cis)) if cis[j] != cis[j - 1]))
        print('(all lines delivered under one connection id, closed and opened again where the connection changes)')
    else:
        s.feed([l + '\n' for l in case['lines']])
    per = s.per_read()
    exp = case.get('expected') or []
    bad = None
    for i, l in enumerate(case['lines']):
        if i >= len(exp) or exp[i] is None:
            continue
        msgs = [outline.strip_sgr(p) for k, p in per.get(i, []) if k == 'out' and outline.parse_line(outline.strip_sgr(p))['kind'] == 'msg']
        prob = 'no message line' if len(msgs) != 1 else streams.compare_line(msgs[0], exp[i][0], exp[i][1])[0]
        ctx.ev()
        if prob:
            bad = i
            ctx.violation('replay-line', 'line %d %r: %s; expected %r, shown %r' % (i, l[:160], prob, exp[i][0], msgs[:1]), {'lines': case['lines'], 'expected': exp, 'first_bad_line': i})
            break
    for kind, msg in contracts.drain():
        ctx.violation(kind, msg, {'lines': case['lines']})
    idx = bad if bad is not None else (case.get('first_bad_line') or 0)
    for i in range(max(0, idx - 3), min(len(case['lines']), idx + 2)):
        print('IN ', case['lines'][i])
        for k, p in per.get(i, []):
            print('   ', k, outline.strip_sgr(p))
    if bad is None and not ctx.violations:
        print('replay: every line is shown as the stored ground truth expects (the original report may have been about recorded state: %r)' % (case.get('first_bad_line'),))


def deep_table(ctx, n, props=('C02', 'C03', 'C14')):
    """One id (client range) and one server-range id pushed through n incarnations on a real ConnectionImpl, driven through
    the connection's own interface (create_object / destroy / retrieve_object) - no parsing, no printing - so that depths of a
    million are affordable.  After every creation: the new object is the n-th of its id, is the only alive one, its label is
    the n-th label, and the latest-object lookup returns it.  Labels are compared against history.letters() and collected
    in a set (no two objects of one id share a label)."""
    env.setup()
    env.load_protocols()
    env.reset_globals(False)
    from core import ConnectionManager
    from core.util import no_color
    cm = ConnectionManager()
    conn = cm.open_connection(0.0, 'deep', None)
    disp = conn.wl_display()
    case = {'deep_table': n}
    for oid, typ in ((3, 'wl_callback'), (0xff000000, 'wl_data_offer')):
        seen = set()
        prev = None
        for i in range(n):
            t = i * 0.001
            try:
                ob = conn.create_object(t, disp, oid, typ)
            except Exception as e:
                ctx.violation('deep-create', 'incarnation %d of id %d: create_object raised %s: %r' % (i, oid, type(e).__name__, e), case)
                return
            lab = no_color(ob.id_str())
            want = '@%d%s' % (oid, history.letters(i))
            if ob.generation != i or lab != want:
                ctx.violation('deep-label', 'the %d-th object with id %d is labelled %s (generation %r), expected %s' % (i + 1, oid, lab, ob.generation, want), case)
                return
            if lab in seen:
                ctx.violation('deep-label-shared', 'label %s given to two objects of id %d (the second is number %d)' % (lab, oid, i + 1), case)
                return
            seen.add(lab)
            if prev is not None and prev.alive:
                ctx.violation('deep-two-alive', 'after creating %s the previous incarnation %s is still alive' % (lab, no_color(prev.id_str())), case)
                return
            if conn.retrieve_object(oid, -1, None) is not ob:
                ctx.violation('deep-latest', 'the latest object with id %d is not the one just created (%s)' % (oid, lab), case)
                return
            if i % 4099 == 0 and i:
                j = i // 2
                mid = conn.retrieve_object(oid, j, None)
                if mid.generation != j or no_color(mid.id_str()) != '@%d%s' % (oid, history.letters(j)):
                    ctx.violation('deep-lookup', 'incarnation %d of id %d looked up after %d creations is %s' % (j, oid, i + 1, no_color(mid.id_str())), case)
                    return
            if oid < 0xff000000:
                ob.destroy(t + 0.0005)        # (server-range ids are destroyed by the next creation)
                if ob.lifespan() is None or abs(ob.lifespan() - 0.0005) > 1e-9:
                    ctx.violation('deep-lifespan', 'object %s created at %.4f destroyed at %.4f has lifespan %r' % (lab, t, t + 0.0005, ob.lifespan()), case)
                    return
            prev = ob
        ctx.ev(n)
        ctx.count('deep_table_incarnations', n)
        ctx.counters['deep_table_depth'] = max(ctx.counters.get('deep_table_depth', 0), n)


def long_history(ctx, rng, cands, n, kind_prefix=''):
    """One connection with n recorded messages (long sessions are ordinary: a client drawing at 60 fps logs 100 000 lines in
    ten minutes), then, with that connection selected: the `connection` listing counts them all, the oldest message can
    still be listed, and the matched / didn't match / not checked counts of a capped listing add up to n."""
    from . import outline as ol
    st = streams.build(rng, cands, k=1, n_each=n, tagged=True, opts={'hot': 0.7, 'reuse_bias': 0.5, 'prompt_delete': 1.0, 'first': 'get_registry', 'big_gaps': 0.0})
    lines = [e['line'] for e in st['entries']]
    s = Session()
    s.feed([l + '\n' for l in lines], cleanup=False)
    total = len(lines)
    case = {'long_history': total, 'lines_head': lines[:3]}
    ctx.ev(total)
    ctx.counters['long_history_messages'] = max(ctx.counters.get('long_history_messages', 0), total)

    def run(cmd):
        n0 = len(s.events)
        s.command(cmd)
        return [ol.strip_sgr(p) for k, p in s.events[n0:] if k == 'out']
    run('connection A')
    listing = run('connection')
    m = [LIST_RE.match(l) for l in listing]
    counts = [int(x.group(7)) for x in m if x]
    if counts != [total]:
        ctx.violation(kind_prefix + 'recorded-count', '%d messages arrived on connection A, the `connection` listing says %r' % (total, listing[:2]), case)
        return
    out = run('list wl_display.get_registry')
    first = [ol.parse_line(l) for l in out]
    if not any(it['kind'] == 'msg' and it['name'] == 'get_registry' for it in first):
        ctx.violation(kind_prefix + 'oldest-lost', 'with connection A selected `list wl_display.get_registry` does not show the first of its %d messages: %r' % (total, out[:2]), case)
        return
    out = run('list ~ 5')
    tail = [ol.parse_line(l) for l in out if ol.parse_line(l)['kind'] == 'count']
    if not tail or tail[0]['matched'] + tail[0]['didnt'] + tail[0]['not_checked'] != total:
        ctx.violation(kind_prefix + 'counts', '`list ~ 5` on a connection with %d messages reports %r' % (total, [t['text'] for t in tail][:1] or out[-1:]), case)
        return
    ctx.count('long_history_checks')
