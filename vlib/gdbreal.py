"""Tier B: real gdb 13 runs the unmodified plugin against the synthetic libwayland-ABI inferior (vlib/native)."""
import json
import os
import subprocess
import tempfile

from . import env

VERIF = os.path.dirname(os.path.dirname(os.path.abspath(__file__)))
INFERIOR = os.path.join(VERIF, 'build', 'fake_libwayland')
GDB = '/usr/bin/gdb'


def available():
    if not os.path.exists(GDB):
        return False
    if not os.path.exists(INFERIOR):
        subprocess.call([os.path.join(VERIF, 'vlib', 'native', 'build.sh')], stdout=subprocess.DEVNULL, stderr=subprocess.DEVNULL)
    return os.path.exists(INFERIOR)


def hexs(s):
    if s is None:
        return '-'
    b = s.encode('utf-8')
    return b.hex() if b else '='


class Script:
    def __init__(self):
        self.lines = []
        self.ifaces = {}
        self.nconns = 0
        self.nevents = 0

    def iface(self, name):
        if name is None:
            return -1
        if name not in self.ifaces:
            self.ifaces[name] = len(self.ifaces)
            self.lines.append('I ' + hexs(name))
        return self.ifaces[name]

    def conn(self, side):
        self.lines.append('C ' + side[0])
        self.nconns += 1
        return self.nconns - 1

    def reuse(self, old, side):
        self.lines.append('R %d %s' % (old, side[0]))
        self.nconns += 1
        return self.nconns - 1

    def destroy(self, conn):
        self.lines.append('D %d' % conn)
        self.nevents += 1
        return self.nevents

    def event(self, conn, thread, sending, func, iface, oid, name, sig, args):
        """args: printer-style closure args with 'decl' for objects; -> seq number of the event"""
        ii = self.iface(iface)
        toks = []
        for a in args:
            k = a['k']
            if k in 'ifh':
                toks.append('%s %d' % (k, a['v']))
            elif k == 'u':
                toks.append('u %d' % a['v'])
            elif k == 's':
                toks.append('s ' + hexs(a['v']))
            elif k == 'o':
                if a['v'] is None:
                    toks.append('o -1 0 %d' % self.iface(a.get('decl')))
                else:
                    toks.append('o %d %d %d' % (self.iface(a['v']['iface']), a['v']['id'], self.iface(a.get('decl'))))
            elif k == 'n':
                toks.append('n %d %d' % (a['v'], self.iface(a.get('iface'))))
            elif k == 'a':
                raw = b''.join(int(x).to_bytes(4, 'little', signed=True) for x in a['data']) + bytes(a.get('extra_bytes', 0))
                toks.append('a %d %s' % (len(raw), raw.hex() or ('0' if a.get('null_data') else '-')))
        self.lines.append('E %d %d %s %d %d %d %s %s %d %s' % (conn, thread, 's' if sending else 'r', func, ii, oid, hexs(name), hexs(sig), len(args), ' '.join(toks)))
        self.nevents += 1
        return self.nevents

    def text(self):
        # interface definitions must precede their use: they are emitted in order of first use, which is before the event line
        return '\n'.join(self.lines) + '\n'


def run(script, argv_opts=(), at_halt=None, default_at_halt=('continue',), before_run=(), timeout=300, sanitize=False):
    """-> dict(records=[...], stderr=str, printout={seq: line}, rc=int)"""
    d = tempfile.mkdtemp(prefix='verif-gdb-')
    try:
        sp = os.path.join(d, 'script.txt')
        with open(sp, 'w') as f:
            f.write(script.text())
        po = os.path.join(d, 'printout.txt')
        if sanitize:
            san = INFERIOR + '_san'
            r = subprocess.run([san, sp, po], stdout=subprocess.PIPE, stderr=subprocess.PIPE, timeout=timeout,
                               env=dict(os.environ, ASAN_OPTIONS='detect_leaks=0:abort_on_error=0', UBSAN_OPTIONS='halt_on_error=1'))
            return {'rc': r.returncode, 'stderr': r.stderr.decode('utf-8', 'replace')}
        plan = {'repo': env.REPO, 'log': os.path.join(d, 'log.jsonl'), 'argv': [os.path.join(env.REPO, 'main.py')] + list(argv_opts),
                'at_halt': at_halt or {}, 'default_at_halt': list(default_at_halt), 'before_run': list(before_run)}
        pp = os.path.join(d, 'plan.json')
        with open(pp, 'w') as f:
            json.dump(plan, f)
        e2 = {k: v for k, v in os.environ.items() if not k.startswith('LC_') and k not in ('LANG', 'PYTHONPATH', 'PYTHONHOME')}
        e2.update({'LC_ALL': 'C.UTF-8', 'VERIF_GDBDRV_PLAN': pp, 'PYTHONDONTWRITEBYTECODE': '1'})
        r = subprocess.run([GDB, '-nx', '-batch', '-x', os.path.join(VERIF, 'vlib', 'gdbdrv.py'), '--args', INFERIOR, sp, po],
                           stdin=subprocess.DEVNULL, stdout=subprocess.PIPE, stderr=subprocess.PIPE, timeout=timeout, env=e2, cwd=d)
        recs = []
        if os.path.exists(plan['log']):
            for l in open(plan['log']):
                try:
                    recs.append(json.loads(l))
                except ValueError:
                    pass
        printout = {}
        if os.path.exists(po):
            for l in open(po, encoding='utf-8', errors='replace'):
                s, _, line = l.rstrip('\n').partition('\t')
                if s.isdigit():
                    printout[int(s)] = line
        return {'records': recs, 'stderr': r.stderr.decode('utf-8', 'replace'), 'stdout': r.stdout.decode('utf-8', 'replace'), 'printout': printout, 'rc': r.returncode}
    finally:
        import shutil
        shutil.rmtree(d, ignore_errors=True)
