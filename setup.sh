#!/bin/bash
# Run once after a fresh restore (offline). Everything the checks need is either committed here or built
# lazily by the checks themselves (vlib/native/build.sh is idempotent and also called from the checks).
set -e
cd "$(dirname "$0")"
mkdir -p build evidence replays
if [ -x vlib/native/build.sh ]; then vlib/native/build.sh || echo "native build failed: tier B will be reported as skipped"; fi
/venv/bin/python -B -c "import sys; sys.path.insert(0, '.'); import vlib.runner" 
echo setup ok
