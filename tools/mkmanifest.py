#!/usr/bin/env python3
"""Regenerates MANIFEST.json from the table below and the check modules that exist."""
import json
import os

VERIF = os.path.dirname(os.path.dirname(os.path.abspath(__file__)))

T = {
 'C01': ('online monitor on parse.message() and on output tokens against the generating closure (port of wl_closure_print)',
         'Runtime monitoring: every generated closure is printed by a port of libwayland\'s printer in both dialects and the real decoder\'s result (and the line the user sees) is compared with the closure. Held on the lines observed, nothing more.',
         'Trusted: vlib/printer.py as a port of wl_closure_print (cross-checked on the shipped real logs); the liberal recogniser that certifies negative lines message-free.', '4/C01'),
 'C02': ('history + executable reference model (connection simulator ground truth) + invariants hooked on ConnectionImpl.db',
         'Runtime monitoring: well-formed generated histories run through the real pipeline; every type@id+letters token and every resolved object is compared with the simulator\'s ground truth; structural invariants of the object table are asserted after every message.',
         'Trusted: vlib/history.py (independently validated for well-formedness before use), vlib/outline.py tokenizer.', '4/C02'),
 'C03': ('history + reference model: alive sets, resurrection watch on ObjectBase.alive, Decimal lifespan arithmetic on the log text',
         'Runtime monitoring of object lifetimes over generated histories (client- and server-side logs): alive set after every message, destroyed annotations, lifespans within one unit of the last printed digit.',
         'Trusted: vlib/history.py ground truth; tolerance of one unit in the 4th decimal for float rounding.', '4/C03'),
 'C04': ('history + model, metamorphic projection: interleaved run = alone run = ground truth per connection; manager model on the ConnectionIDSink API',
         'Runtime monitoring over interleavings that preserve per-connection order; per-connection projection equality plus notices/naming/listing checks; open/message/close/reopen sequences on the API against a manager model.',
         'Trusted: simulator and tokenizer; Closed-notice order is treated as free (set iteration).', '4/C04'),
 'C05': ('online cross product: parse(t).simplify().matches(m) vs 3-valued reference evaluator over the generating AST; whitespace/bracket metamorphic renderings',
         'Runtime monitoring of the real matcher on real Message objects from the pipeline against an independent evaluator written from matchers.md; only definite reference values are compared.',
         'Trusted: vlib/mref.py as my reading of the documentation (DESIGN 3.3 lists what is left unspecified).', '4/C05'),
 'C06': ('offline checker over the boundary event log (read/out/cmd) with the accumulated-filter model and a snapshot of the tool\'s own matcher as isolating oracle',
         'Runtime monitoring of the live view: shown-iff-matching, once, in order, recorded regardless; filter/selection changes injected between lines.',
         'Trusted: serial timestamps make every line identify its message; matcher semantics as in C05.', '4/C06'),
 'C07': ('exhaustive enumeration of shipped interfaces x messages x argument positions x enum values through the real pipeline vs an independent XML reader',
         'Exhaustive over the finite shipped protocol set (both tiers) plus all load-order permutations of synthetic multi-version descriptions.',
         'Trusted: vlib/wlxml.py (ElementTree), the hand-applied enum tag table copied from the property text.', '4/C07'),
 'C08': ('offline checker over the event log: conservation, order, pace (out before next read), prefix property at every truncation point',
         'Runtime monitoring on a logical clock at the Output boundary, plus real processes with truncated input in the thorough tier.',
         'Trusted: chatter certified message-free by an independent recogniser; serial numbers in every line.', '4/C08'),
 'C09': ('online monitor per closure on extract.received_message()/sent_message() through a bounds-checked ctypes gdb shim (tier A) and real gdb on a libwayland-ABI inferior (tier B); cross-mode comparison with log mode',
         'Runtime monitoring of the unmodified GDB plugin code against generated closures materialised as C structures.',
         'Trusted: the shim\'s gdb.Value semantics (validated against real gdb on every tier-B run), the inferior reproduces libwayland\'s ABI and call shapes only.', '4/C09'),
 'C10': ('temporal monitor (halted/breakpoint/selection state machine) over stop() results, gdb.execute calls, notices and prompts',
         'Runtime monitoring of random interleavings of messages and commands against a small state machine; prompt counting for the terminal UI.',
         'Trusted: breakpoint membership by the reference matcher semantics; gdb shim run loop.', '4/C10'),
 'C11': ('online per-query monitor: list block and counts vs reference selection over the recorded history; state snapshots around each command',
         'Runtime monitoring of list queries (matchers, caps around the true match count, selections, repeats).',
         'Trusted: reference matcher semantics (C05) and the tool\'s own matcher as isolating second oracle.', '4/C11'),
 'C12': ('history + accumulation model with must/may sets, evaluated over a probe universe after every command',
         'Runtime monitoring of filter/breakpoint command sequences through process_command.',
         'Trusted: the accumulation model of DESIGN 3.4 (ambiguous point modelled as an interval).', '4/C12'),
 'C13': ('relational monitor over real processes: -l / -p / -r on the same stream and across chunk schedules; child self-report of argv/env/fd',
         'Runtime monitoring of real main.py processes with a scripted child; equality across modes and schedules, exit status, transparency.',
         'Trusted: the helper child; verdicts never depend on timing except a bounded-termination watchdog (inconclusive).', '4/C13'),
 'C14': ('exhaustive bijection check through four letters + paste-back of every displayed label as a matcher against simulator ground truth',
         'Exhaustive for the letter functions up to 4 letters (sampled beyond); label paste-back over generated histories.',
         'Trusted: simulator ground truth for on/mention/create/destroy sets.', '4/C14'),
 'C15': ('history + connection-manager model on address events through the gdb shim (and real gdb in tier B); exceptions escaping stop() recorded',
         'Runtime monitoring of event sequences (messages on several addresses/threads, destroys of known/closed/never-seen addresses, reuse).',
         'Trusted: gdb shim run loop; manager model.', '4/C15'),
 'C16': ('offline checker over the event log with Decimal arithmetic on the log text; metamorphic constant time shift',
         'Runtime monitoring of time columns and separators in the live view and in listings, under filters, both decimal marks, shifts.',
         'Trusted: tolerance of one unit of the last printed digit; a live message following a list block is unspecified.', '4/C16'),
 'C17': ('relational monitor: the same session run with colour on and off, streams compared after stripping SGR; coloured paste-back',
         'Runtime monitoring of sessions built to print every construct, including errors.',
         'Trusted: the SGR stripper (independent regex); input text is ESC-free.', '4/C17'),
 'C18': ('totality fuzzing with monitors for escaping exceptions, exit status, Closed notices, silent commands',
         'Runtime monitoring under mutation-based hostile inputs: bytes as logs (in-process and as real processes in three modes), matcher strings, command lines.',
         'Trusted: nothing beyond the harness; inputs are bounded by the mutators described in the evidence rule.', '4/C18'),
 'C19': ('online monitor on parse_args against a reference splitter; end-to-end child argv; real gdb view of the inner sys.argv',
         'Runtime monitoring of generated argument vectors in-process, through run mode (child dump) and through a gdb shim on PATH that runs the real gdb.',
         'Trusted: reference splitter; real gdb + real Python parse the quoting.', '4/C19'),
}

ENGINES = [
 {'name': 'session-monitors', 'path': 'vlib/session.py', 'kind_free_text': 'in-process real pipeline observed at its boundary (input object, output streams, UIState listener) with an event log on a logical clock; online and offline checkers'},
 {'name': 'process-monitors', 'path': 'vlib/proc.py', 'kind_free_text': 'real main.py processes (file, pipe, run mode) with a scripted child program'},
 {'name': 'gdb-shim', 'path': 'vlib/shim/gdb.py', 'kind_free_text': 'bounds-checked ctypes-backed gdb module; the unmodified plugin runs on it'},
 {'name': 'real-gdb-inferior', 'path': 'vlib/native/fake_libwayland.c', 'kind_free_text': 'real gdb 13 running the unmodified plugin against a synthetic libwayland-ABI inferior'},
]
ENGINE_OF = {'C09': 'gdb-shim', 'C10': 'gdb-shim', 'C15': 'gdb-shim', 'C13': 'process-monitors', 'C19': 'process-monitors'}


def main():
    checks = []
    na = []
    for pid in sorted(T):
        tech, text, note, ref = T[pid]
        if os.path.exists(os.path.join(VERIF, 'vlib', 'checks', pid.lower() + '.py')):
            checks.append({
                'property_id': pid,
                'quick_cmd': './check %s --tier quick' % pid,
                'thorough_cmd': './check %s --tier thorough' % pid,
                'evidence_file': 'evidence/%s.json' % pid,
                'replay_cmd_template': './check %s --replay {path}' % pid,
                'engine': ENGINE_OF.get(pid, 'session-monitors'),
                'level_claimed': {'category': 'exploration', 'text': text, 'design_ref': 'DESIGN.md section ' + ref},
                'level_note': note,
                'technique': 'runtime monitoring: ' + tech,
            })
        else:
            na.append({'property_id': pid, 'reason': 'check not built yet in this round (design in DESIGN.md section %s); not claimed until its monitor exists and is silent on the unchanged tree' % ref})
    for e in ENGINES:
        e['serves_properties'] = [c['property_id'] for c in checks if c['engine'] == e['name']]
    m = {
        'version': 1,
        'setup_cmd': './setup.sh',
        'hooks': {
            'guard': 'WAYLAND_DEBUG_VERIF',
            'enable': 'no source hooks are needed: every observation point is a constructor parameter, a public method wrapped from the harness, the gdb module the plugin imports, a program on PATH or a child process; the guard name is reserved',
            'baseline_off_cmd': 'cd /repo && /venv/bin/python -m pytest -ra -q -p no:cacheprovider --timeout=900 --continue-on-collection-errors',
            'source_commits': [],
            'add_only': True,
        },
        'engines': ENGINES,
        'checks': checks,
        'not_applicable': na,
        'notes': 'All checks are runtime monitors (DESIGN.md). ./check <ID> --tier quick|thorough [--seed N]; VERIF_SEED/VERIF_TIER honoured; VERIF_REPO points the checks at another tree (self-test). Exit 0 held, 1 VIOLATION, 2 INCONCLUSIVE (deciding monitor not reached).',
    }
    with open(os.path.join(VERIF, 'MANIFEST.json'), 'w') as f:
        json.dump(m, f, indent=1)
        f.write('\n')
    print('checks:', [c['property_id'] for c in checks], 'not_applicable:', [n['property_id'] for n in na])


if __name__ == '__main__':
    main()
