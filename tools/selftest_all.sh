#!/bin/bash
# Runs every seeded change and every revert-fix mutant against the check of the property it breaks.
# Usage: tools/selftest_all.sh [quick|thorough]  -> prints one line per (patch, property)
cd "$(dirname "$0")/.."
export SELFTEST_TIER="${1:-quick}"
jobs=()
for d in seeded/C*-*; do
  prop=$(basename $d | cut -d- -f1)
  if grep -q '"status": "neutralised"' $d/meta.json 2>/dev/null; then echo "SELFTEST $(basename $d)/patch.diff $prop neutralised (see meta.json)"; continue; fi
  echo "$d/patch.diff $prop"
done > /tmp/selftest_jobs.$$
grep '^SELFTEST' /tmp/selftest_jobs.$$; sed -i '/^SELFTEST/d' /tmp/selftest_jobs.$$
for p in mutants/*.patch; do
  prop=$(basename $p .patch | sed 's/.*-\(C[0-9]*\)$/\1/')
  echo "$p $prop"
done >> /tmp/selftest_jobs.$$
cat /tmp/selftest_jobs.$$ | xargs -P 4 -L 1 ./selftest.sh 2>&1 | grep '^SELFTEST' | sort
rm -f /tmp/selftest_jobs.$$
