#!/bin/bash
# tools/intake.sh <outdir> <ID> <letters...> : copy a sub-agent's deliverable into seeded/, verify it, run the check against it
out=$1; id=$2; shift 2
cd "$(dirname "$0")/.."
for x in "$@"; do
  src=$out/$id/$x
  [ -f $src/patch.diff ] || { echo "INTAKE $id-$x: missing"; continue; }
  mkdir -p seeded/$id-$x
  cp $src/patch.diff $src/demo.py seeded/$id-$x/
  cp $src/meta.json seeded/$id-$x/meta.agent.json
  tools/verify_seeded.sh seeded/$id-$x
  ./selftest.sh seeded/$id-$x/patch.diff $id | cut -c1-330
done
