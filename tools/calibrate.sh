#!/bin/bash
# Runs the repository's own test suite with the harness's invariant hooks (vlib/contracts.py) installed.
cd /repo && PYTHONPATH=/verif /venv/bin/python -m pytest -q -p no:cacheprovider -p vlib.pytest_contracts --timeout=900 --continue-on-collection-errors 2>&1 | grep -A4 "verif contracts" | head -6
