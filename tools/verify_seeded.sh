#!/bin/bash
# tools/verify_seeded.sh <seeded/ID-x> : confirm in a scratch worktree of /repo HEAD that the seeded change
# (1) applies, (2) demo passes without it, (3) demo fails with it, (4) the baseline suite still has 214 passes.
dir="$(cd "$1" && pwd)"
name=$(basename "$dir")
wt=$(mktemp -d /tmp/verif-seed-XXXXXX)
trap 'git -C /repo worktree remove --force "$wt" >/dev/null 2>&1; rm -rf "$wt"' EXIT
git -C /repo worktree add -q --detach "$wt" HEAD || exit 3
cd "$wt"
/venv/bin/python -B "$dir/demo.py" "$wt" >/dev/null 2>&1; pre=$?
if ! git apply "$dir/patch.diff" 2>/dev/null; then
  if ! patch -p1 -s --no-backup-if-mismatch < "$dir/patch.diff" >/dev/null 2>&1; then echo "SEEDED $name: APPLY-FAILED (pristine demo exit $pre)"; exit 2; fi
fi
/venv/bin/python -B "$dir/demo.py" "$wt" >/dev/null 2>&1; post=$?
tests=$(/venv/bin/python -m pytest -q -p no:cacheprovider --timeout=900 --continue-on-collection-errors 2>&1 | tail -1)
echo "SEEDED $name: demo pristine=$pre mutated=$post tests: $tests"
