#!/bin/bash
# ./selftest.sh <patch.diff> <PROP> [PROP...] [-- extra check args]
# Copies /repo to a scratch directory outside /repo and /verif, applies the patch, runs the checks against the copy
# (VERIF_REPO), prints one line per check with the exit status, removes the copy.
patch="$(readlink -f "$1")"; shift
cd "$(dirname "$0")"
d=$(mktemp -d /tmp/verif-selftest-XXXXXX)
trap 'rm -rf "$d"' EXIT
rsync -a --exclude .git --exclude __pycache__ /repo/ "$d/"
if ! (cd "$d" && patch -p1 -s --no-backup-if-mismatch < "$patch"); then echo "SELFTEST $patch: patch does not apply"; exit 3; fi
rc_all=0
for p in "$@"; do
  out=$(VERIF_REPO="$d" VERIF_EVIDENCE_DIR="$d/.evidence" ./check "$p" --tier "${SELFTEST_TIER:-quick}" 2>&1); rc=$?
  echo "SELFTEST $(basename $(dirname $patch))/$(basename $patch) $p exit=$rc $(echo "$out" | grep -c '^VIOLATION') violation lines; $(echo "$out" | grep -m1 -A1 '^VIOLATION' | tail -1 | cut -c1-220)"
  [ $rc -ne 1 ] && rc_all=1
done
exit $rc_all
